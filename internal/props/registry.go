// Package props holds one workload + oracle per property.
package props

import (
	"math/rand"

	"verif/internal/harness"
)

// Plan tells the driver how to run a property's cases.
type Plan struct {
	Prop        string   `json:"prop"`
	Level       string   `json:"level"`
	NCases      int      `json:"n_cases"`
	Batch       int      `json:"batch"`
	Par         int      `json:"par"`
	Race        bool     `json:"race"`
	CaseTimeout int      `json:"case_timeout_s"`
	Rule        string   `json:"rule"`
	Assumptions []string `json:"assumptions"`
	MinConcl    int      `json:"min_conclusive"`
	Exhaustive  bool     `json:"exhaustive"`
}

// Prop is a registered property check.
type Prop struct {
	Plan func(tier string) Plan
	Name func(c *harness.Case) string // case name (pure function of the case index/seed)
	Run  func(c *harness.Case)
}

// Registry maps property ids to their checks.
var Registry = map[string]*Prop{}

func pick(tier string, quick, thorough int) int {
	if tier == "thorough" {
		return thorough
	}
	return quick
}

func newRand(seed int64) *rand.Rand { return rand.New(rand.NewSource(seed)) }
