package props

import (
	"context"
	"fmt"
	"os"
	"path/filepath"
	"time"

	pb "github.com/kubewharf/kubebrain-client/api/v2rpc"
	"go.etcd.io/etcd/api/v3/etcdserverpb"
	"google.golang.org/grpc/codes"
	"google.golang.org/grpc/status"

	"github.com/kubewharf/kubebrain/pkg/backend"
	"github.com/kubewharf/kubebrain/pkg/endpoint"

	"verif/internal/harness"
)

// runC18ProdPair: two nodes exactly as cmd/option.Run starts them (pkg/endpoint: multiplexed client and peer ports,
// server.NewServer, real Campaign, real revision syncer and - with etcd compatibility on - the real etcd proxy) over one
// store; the first one leads, the second follows. Requests go to the follower's client port over gRPC.
// Oracle: a write sent to the follower either fails and changes nothing, or (etcd API with the proxy on) is executed by
// the leader exactly once; native writes and native watches are refused; an etcd watch is refused or (proxy on) shows the
// leader's events; every read the follower answers contains a write that was readable on the leader before the read was sent.
func runC18ProdPair(c *harness.Case, proxyOn bool, peerTLS string) {
	eng, err := harness.NewEngine("memkv")
	if err != nil {
		c.Inconclusive(err.Error())
		return
	}
	// (never closed: the election loops of both nodes cannot be stopped)
	rm := harness.NewRecMetrics(true)
	// the peer port, through which the follower's revision syncer and etcd proxy reach the leader: plain, TLS with client
	// certificates only, or both on one port
	sec := func() *endpoint.SecurityConfig { return &endpoint.SecurityConfig{} }
	if peerTLS != "off" {
		cs, cerr := harness.NewCertSet(filepath.Join(harness.ScratchRoot, fmt.Sprintf("certs-%d-%d", os.Getpid(), c.Index)))
		if cerr != nil {
			c.Inconclusive("certificates: " + cerr.Error())
			return
		}
		defer os.RemoveAll(cs.Dir)
		sec = func() *endpoint.SecurityConfig {
			return &endpoint.SecurityConfig{CertFile: cs.Cert, KeyFile: cs.Key, CA: cs.CA, AllowInsecure: peerTLS == "both"}
		}
	}
	A, ok := newProdNodeSec(c, eng.KV, rm, true, proxyOn, 1024, sec())
	if !ok {
		return
	}
	defer A.close()
	P := harness.Prefix
	if A.waitLeads(P+"/pp/first") == nil {
		c.Inconclusive("the first node did not become leader within the watchdog")
		return
	}
	B, ok := newProdNodeSec(c, eng.KV, rm, false, proxyOn, 1024, sec())
	if !ok {
		return
	}
	defer B.close()
	ctx := context.Background()
	var log []string
	wit := func() interface{} {
		return map[string]interface{}{"proxy": proxyOn, "peer_tls": peerTLS, "leader": A.peerAddr, "follower": B.peerAddr, "requests": log}
	}
	note := func(format string, a ...interface{}) { log = append(log, fmt.Sprintf(format, a...)) }
	full := P + "/"
	fullEnd := string(backend.PrefixEnd([]byte(full)))
	leaderState := func() string {
		r, lerr := A.brainGRPC.Range(ctx, &pb.RangeRequest{Key: []byte(full), End: []byte(fullEnd)})
		if lerr != nil {
			return "error: " + lerr.Error()
		}
		return kvStr(r.Kvs)
	}
	refused := func(err error) bool {
		return err != nil && (status.Code(err) == codes.Unavailable || status.Code(err) == codes.Unknown || status.Code(err) == codes.Canceled)
	}
	// ---- native writes on the follower: refused, nothing changes
	before := leaderState()
	_, e1 := B.brainGRPC.Create(ctx, &pb.CreateRequest{Key: []byte(P + "/pp/native"), Value: []byte("x")})
	_, e2 := B.brainGRPC.Update(ctx, &pb.UpdateRequest{Kv: &pb.KeyValue{Key: []byte(P + "/pp/first"), Value: []byte("y"), Revision: A.n.Start + 1}})
	_, e3 := B.brainGRPC.Delete(ctx, &pb.DeleteRequest{Key: []byte(P + "/pp/first")})
	_, e4 := B.brainGRPC.Compact(ctx, &pb.CompactRequest{Revision: A.n.Start + 1})
	note("native Create/Update/Delete/Compact on the follower -> %v | %v | %v | %v", e1, e2, e3, e4)
	for i, e := range []error{e1, e2, e3, e4} {
		if e == nil {
			c.Violatef("C18 follower-accepted-native-write path=production-pair", wit(), "native write #%d sent to the follower's client port was accepted", i)
			return
		}
	}
	if after := leaderState(); after != before {
		c.Violatef("C18 refused-write-changed-the-store path=production-pair", wit(), "the leader's state changed although every native write on the follower was refused: %s -> %s", before, after)
		return
	}
	// ---- etcd transactions on the follower
	for i := 0; i < 3; i++ {
		key := fmt.Sprintf("%s/pp/etcd-%d", P, i)
		before = leaderState()
		var resp *etcdserverpb.TxnResponse
		var terr error
		// the proxy connects to the leader in the background: allow it a moment, but judge whatever it answers
		for try := 0; try < 40; try++ {
			resp, terr = B.etcdGRPC.Txn(ctx, etcdCreate(key, []byte("via-follower")))
			if terr == nil || !proxyOn {
				break
			}
			time.Sleep(50 * time.Millisecond)
		}
		note("etcd Txn create %q on the follower -> %v %v", key, resp, terr)
		g, gerr := A.brainGRPC.Get(ctx, &pb.GetRequest{Key: []byte(key)})
		if gerr != nil {
			c.Inconclusive("leader read failed: " + gerr.Error())
			return
		}
		switch {
		case terr != nil || !resp.Succeeded:
			if g.Kv != nil {
				c.Violatef("C18 failed-follower-write-landed path=production-pair", wit(), "the transaction on the follower answered (%v, %v) but the leader now holds %q", resp, terr, key)
				return
			}
			c.Stat("follower_etcd_writes_refused", 1)
		case !proxyOn:
			c.Violatef("C18 follower-accepted-write-without-proxy path=production-pair", wit(), "with the proxy off the follower answered success for %q", key)
			return
		default:
			if g.Kv == nil || string(g.Kv.Value) != "via-follower" || int64(g.Kv.Revision) != resp.Header.GetRevision() {
				c.Violatef("C18 proxied-write-not-executed-by-the-leader path=production-pair", wit(), "the follower answered success with revision %d for %q, the leader holds %v", resp.Header.GetRevision(), key, g.Kv)
				return
			}
			c.Stat("follower_etcd_writes_executed_by_the_leader", 1)
		}
	}
	// ---- reads on the follower contain what the leader acknowledged before
	for i := 0; i < 10; i++ {
		key := fmt.Sprintf("%s/pp/fresh-%d", P, i)
		cr, cerr := A.brainGRPC.Create(ctx, &pb.CreateRequest{Key: []byte(key), Value: []byte("v")})
		if cerr != nil || !cr.Succeeded {
			c.Inconclusive(fmt.Sprintf("leader write failed: %v %v", cr, cerr))
			return
		}
		wrev := cr.Header.GetRevision()
		// an acknowledged write becomes readable on the leader itself a moment later (when the sequencer passes it);
		// "the leader's revision" a follower must read at is that read revision, so wait until the leader serves it
		if !A.n.WaitCommitted(wrev, 30*time.Second) {
			c.Inconclusive("watchdog: the leader's read revision did not reach its acknowledged write")
			return
		}
		g, gerr := B.brainGRPC.Get(ctx, &pb.GetRequest{Key: []byte(key)})
		note("leader created %q at %d; follower Get -> %v %v", key, wrev, g, gerr)
		if gerr == nil && (g.Kv == nil || g.Kv.Revision != wrev) {
			c.Violatef("C18 follower-read-misses-acknowledged-write path=production-pair request=brain.Get", wit(), "the leader acknowledged %q at revision %d, then the follower answered Get with %v (header %d)", key, wrev, g.Kv, g.Header.GetRevision())
			return
		}
		er, eerr := B.etcdGRPC.Range(ctx, &etcdserverpb.RangeRequest{Key: []byte(full), RangeEnd: []byte(fullEnd), Serializable: wrev%2 == 1})
		if eerr == nil {
			found := false
			for _, kv := range er.Kvs {
				if string(kv.Key) == key && kv.ModRevision == int64(wrev) {
					found = true
				}
			}
			if !found {
				c.Violatef("C18 follower-read-misses-acknowledged-write path=production-pair request=etcd.Range", wit(), "the leader acknowledged %q at revision %d, then the follower's Range (header %d, %d kvs) does not contain it", key, wrev, er.Header.GetRevision(), len(er.Kvs))
				return
			}
			c.Stat("follower_reads_checked", 1)
		}
		cn, cnerr := B.brainGRPC.Count(ctx, &pb.CountRequest{Key: []byte(full), End: []byte(fullEnd)})
		ln, lnerr := A.brainGRPC.Count(ctx, &pb.CountRequest{Key: []byte(full), End: []byte(fullEnd)})
		if cnerr == nil && lnerr == nil && cn.Count < ln.Count-0 && cn.Count != ln.Count {
			c.Violatef("C18 follower-read-misses-acknowledged-write path=production-pair request=brain.Count", wit(), "follower Count=%d, leader Count=%d with no write in flight", cn.Count, ln.Count)
			return
		}
	}
	// ---- watches on the follower
	{
		wctx, wcancel := context.WithTimeout(ctx, 1500*time.Millisecond)
		fbw := &fakeBrainWatch{fakeStream: fakeStream{ctx: wctx}}
		werr := B.brainGRPC.Watch(&pb.WatchRequest{Key: []byte(full)}, fbw)
		wcancel()
		note("native Watch on the follower -> %v (messages %d)", werr, fbw.n)
		if fbw.n > 0 || (werr == nil) {
			c.Violatef("C18 follower-served-native-watch path=production-pair", wit(), "the native watch on the follower was not refused (err %v, %d messages)", werr, fbw.n)
			return
		}
		_ = refused
	}
	{
		wctx, wcancel := context.WithCancel(ctx)
		fw := newFakeWatchServer(wctx)
		done := make(chan error, 1)
		go func() { done <- B.etcdGRPC.Watch(fw) }()
		fw.in <- &etcdserverpb.WatchRequest{RequestUnion: &etcdserverpb.WatchRequest_CreateRequest{CreateRequest: &etcdserverpb.WatchCreateRequest{Key: []byte(full), RangeEnd: []byte(fullEnd)}}}
		time.Sleep(300 * time.Millisecond)
		key := P + "/pp/watched"
		cr, cerr := A.brainGRPC.Create(ctx, &pb.CreateRequest{Key: []byte(key), Value: []byte("w")})
		if cerr != nil || !cr.Succeeded {
			wcancel()
			c.Inconclusive("leader write failed")
			return
		}
		// give the stream a bounded while; absence of the event is only judged together with an explicit refusal
		sawEvent, cancelled := false, false
		for i := 0; i < 40 && !sawEvent && !cancelled; i++ {
			time.Sleep(50 * time.Millisecond)
			for _, m := range fw.snapshot() {
				if m.Canceled {
					cancelled = true
				}
				for _, ev := range m.Events {
					if string(ev.Kv.Key) == key && ev.Kv.ModRevision == int64(cr.Header.GetRevision()) {
						sawEvent = true
					}
				}
			}
			select {
			case <-done:
				cancelled = true
			default:
			}
		}
		wcancel()
		note("etcd Watch on the follower: event of the leader's write seen=%v, stream ended/cancelled=%v", sawEvent, cancelled)
		if !proxyOn && sawEvent {
			c.Violatef("C18 follower-served-watch-from-own-history path=production-pair", wit(), "with the proxy off the follower's etcd watch delivered an event")
			return
		}
		if sawEvent {
			c.Stat("follower_watches_forwarded_to_the_leader", 1)
		}
		if cancelled {
			c.Stat("follower_watches_refused", 1)
		}
	}
	// ---- list-then-watch through the follower: a watch from a revision that lies in the past must begin with the first
	// change at or after it (or be refused) - the revision has to survive the hand-over to the leader
	{
		lr, lerr := B.etcdGRPC.Range(ctx, &etcdserverpb.RangeRequest{Key: []byte(full), RangeEnd: []byte(fullEnd)})
		if lerr == nil {
			R := lr.Header.GetRevision()
			var revs []int64
			for i := 0; i < 3; i++ {
				cr, cerr := A.brainGRPC.Create(ctx, &pb.CreateRequest{Key: []byte(fmt.Sprintf("%s/pp/after-list-%d", P, i)), Value: []byte("w")})
				if cerr != nil || !cr.Succeeded {
					c.Inconclusive("leader write failed")
					return
				}
				revs = append(revs, int64(cr.Header.GetRevision()))
			}
			A.n.WaitCommitted(uint64(revs[2]), 30*time.Second)
			wctx, wcancel := context.WithCancel(ctx)
			fw := newFakeWatchServer(wctx)
			done := make(chan error, 1)
			go func() { done <- B.etcdGRPC.Watch(fw) }()
			fw.in <- &etcdserverpb.WatchRequest{RequestUnion: &etcdserverpb.WatchRequest_CreateRequest{CreateRequest: &etcdserverpb.WatchCreateRequest{Key: []byte(full), RangeEnd: []byte(fullEnd), StartRevision: R + 1}}}
			time.Sleep(300 * time.Millisecond)
			tail, terr := A.brainGRPC.Create(ctx, &pb.CreateRequest{Key: []byte(P + "/pp/after-watch"), Value: []byte("w")})
			var got []int64
			cancelled := false
			headerBehind := ""
			for i := 0; i < 40 && !cancelled; i++ {
				time.Sleep(50 * time.Millisecond)
				got = got[:0]
				for _, m := range fw.snapshot() {
					if m.Canceled {
						cancelled = true
					}
					for _, ev := range m.Events {
						got = append(got, ev.Kv.ModRevision)
						if m.Header.GetRevision() < ev.Kv.ModRevision {
							headerBehind = fmt.Sprintf("a watch response with header revision %d carries an event with mod revision %d", m.Header.GetRevision(), ev.Kv.ModRevision)
						}
					}
				}
				select {
				case <-done:
					cancelled = true
				default:
				}
				if terr == nil && len(got) > 0 && got[len(got)-1] >= int64(tail.Header.GetRevision()) {
					break
				}
			}
			wcancel()
			note("list at %d through the follower, leader writes at %v, watch from %d through the follower delivered revisions %v (cancelled=%v)", R, revs, R+1, got, cancelled)
			if headerBehind != "" {
				c.Violatef("C18 forwarded-watch-header-behind-its-events path=production-pair", wit(), "watch through the follower: %s (a response names a revision at which its own events do not exist yet)", headerBehind)
				return
			}
			if len(got) > 0 && got[0] != revs[0] {
				c.Violatef("C18 forwarded-watch-does-not-start-at-the-requested-revision path=production-pair", wit(), "a watch from revision %d sent to the follower first delivered revision %d; the first change at or after %d is revision %d (the stream went on past changes it did not deliver)", R+1, got[0], R+1, revs[0])
				return
			}
			if len(got) > 0 {
				c.Stat("list_then_watch_through_the_follower", 1)
			}
		}
	}
	c.AddSet("production_pair", fmt.Sprintf("proxy=%v peer-tls=%s", proxyOn, peerTLS))
	c.Fingerprint(true, "production-pair", proxyOn, c.Index)
	c.R.Sample = map[string]interface{}{"case": c.R.Name, "requests": log}
}
