package props

import (
	"bytes"
	"fmt"
	"reflect"
	"time"

	proto "github.com/kubewharf/kubebrain-client/api/v2rpc"

	"github.com/kubewharf/kubebrain/pkg/backend"
	"github.com/kubewharf/kubebrain/pkg/backend/coder"
	"github.com/kubewharf/kubebrain/pkg/backend/scanner"
	"github.com/kubewharf/kubebrain/pkg/storage"

	"verif/internal/harness"
)

// C17 — expiry removes only event keys, wholly, and only after the TTL.

var c17Kinds = []string{"scanner-direct/tikv", "scanner-direct/memkv-nottl", "backend/memkv-nottl", "backend/tikv", "native/memkv", "native/badger", "control-1h/tikv", "control-1h/memkv"}

func init() {
	Registry["C17"] = &Prop{
		Plan: func(tier string) Plan {
			return Plan{Level: "exploration", NCases: pick(tier, 32, 3200), Batch: 1, CaseTimeout: 120, Par: 16,
				Rule: "one case = a PRNG history over Event keys (<prefix>/events/ns/x) and look-alikes (<prefix>/pods/events/x, <prefix>/eventsx/y, <prefix>/cm/ns/events/, keys outside the prefix) on an engine without native TTL (TiKV mock; memkv behind a wrapper reporting SupportTTL()=false) with the built-in compaction expiry — either the exported scanner with Config.TTL 300ms driven directly, or a whole backend with the events TTL set to 1s through the verif hook — or on an engine with native TTL (memkv, Badger) with TTL 1s; sequence: writes (some events deleted and created again at once), Compact (mark), pause, updates of some events (younger), Compact (in a third of the cases at an older revision than the first one); control cases use TTL 1h. A watcher stays open throughout. " +
					"oracle: a key that lost its index or any version without a client delete/compaction-eligible reason must be an Event directly under the prefix, its newest write must have BEGUN at least TTL before the expiry COULD have happened (monotonic clock; so load can only make a case inconclusive, never an alarm), it must have lost index and all versions together, read absent at latest and be creatable again; the watcher saw only client writes; with TTL 1h nothing is removed. " +
					"non-trivial = case in which >=1 expiry actually happened and >=1 look-alike and >=1 younger event were present; distinct by (kind, key set, expired set)",
				Assumptions: []string{"the backend's TTL is whole seconds, so backend-level cases pause 1.3-1.6 s; Badger keeps expiry in whole seconds, so its cases use TTL 3 s and allow one second of slack", "expiry is never demanded, only constrained"},
				MinConcl:    pick(tier, 24, 2500)}
		},
		Name: func(c *harness.Case) string { return c17Kinds[c.Index%len(c17Kinds)] },
		Run:  runC17,
	}
}

type c17Key struct {
	key       string
	isEvent   bool // an Event record directly under the configured prefix
	lastBegin time.Time
	updated   bool
}

func runC17(c *harness.Case) {
	r := c.Rng
	kindName := c17Kinds[c.Index%len(c17Kinds)]
	var mode, engName string
	fmt.Sscanf(replaceSlash(kindName), "%s %s", &mode, &engName)
	ttl := time.Second
	scannerTTL := 300 * time.Millisecond
	control := mode == "control-1h"
	if control {
		ttl = time.Hour
	}
	slack := time.Duration(0)
	if mode == "native" && engName == "badger" {
		// Badger stores expiry in whole seconds: an entry may go up to one second early
		ttl, slack = 3*time.Second, time.Second
	}
	// engine
	base := engName
	noTTL := false
	if engName == "memkv-nottl" {
		base, noTTL = "memkv", true
	}
	if control && engName == "memkv" {
		noTTL = true
	}
	eng, err := harness.NewEngine(base)
	if err != nil {
		c.Inconclusive(err.Error())
		return
	}
	defer eng.Close()
	var kv storage.KvStorage = eng.KV
	var raceHook func(kind string, key []byte)        // set below: placement of a client update inside the expiry
	var faultHook func(kind string, key []byte) error // set below: one storage error on the expiry's removal of an index record
	if noTTL || (base == "tikv" && mode != "native") {
		w := harness.NewWrap(eng.KV)
		w.NoTTL = noTTL
		w.DelFault = func(kind string, key []byte) error {
			if raceHook != nil {
				raceHook(kind, key)
			}
			if faultHook != nil {
				return faultHook(kind, key)
			}
			return nil
		}
		kv = w
	}
	if mode == "scanner-direct" {
		backend.VerifSetEventsTTL(3600) // the backend itself must not expire anything; the separate scanner does
	} else {
		backend.VerifSetEventsTTL(int64(ttl / time.Second))
	}
	defer backend.VerifSetEventsTTL(3600)
	n := harness.NewNode(harness.NodeOpts{KV: kv, Config: backend.Config{WatchCacheSize: 1024}})
	defer n.Retire()
	var sc scanner.Scanner
	effTTL := ttl
	if mode == "scanner-direct" {
		effTTL = scannerTTL
		scfg := scanner.Config{CompactKey: []byte(harness.Prefix + "/compact_key"), Tombstone: []byte("tombstone"), TTL: scannerTTL}
		// the public config names the keys written with ttl (set by reflection so that the harness also builds against a tree without the field)
		if f := reflect.ValueOf(&scfg).Elem().FieldByName("TTLKeyPrefix"); f.IsValid() && f.CanSet() {
			f.SetBytes([]byte(harness.Prefix + "/events/"))
		}
		sc = scanner.NewScanner(kv, coder.NewNormalCoder(), scfg, n.Metrics)
	}
	P := harness.Prefix
	keys := []*c17Key{
		{key: P + "/events/ns/x1", isEvent: true},
		{key: P + "/events/ns/x2", isEvent: true},
		{key: P + "/events/default/y", isEvent: true},
		{key: P + "/pods/events/p1"},           // a pod in a namespace called "events"
		{key: P + "/eventsx/e"},                // resource whose name merely starts with "events"
		{key: P + "/cm/ns/events/"},            // trailing segment
		{key: P + "/configmaps/kube/events/c"}, // nested
		{key: P + "/pods/ns/plain"},
		{key: "/other/events/z"}, // outside the prefix
	}
	full := P + "/"
	wch, werr := n.B.Watch(harness.Ctx, "/", 0)
	if werr != nil {
		c.Inconclusive("watch refused")
		return
	}
	m := harness.NewModel()
	var hist []string
	wit := func() interface{} {
		return map[string]interface{}{"kind": kindName, "ttl": effTTL.String(), "history": hist}
	}
	clientEvents := 0
	// every other case the clients send a lease id of 1 with their creates and updates (kubebrain has no leases: a
	// key's life time must not depend on the field, 1 s is shorter than every TTL in play)
	leases := c.Index%2 == 0
	write := func(k *c17Key, op harness.SeqOp) bool {
		if leases && op.Kind != "delete" {
			op.Lease = 1
		}
		begin := time.Now()
		out, mis := n.ApplyChecked(m, op)
		hist = append(hist, fmt.Sprintf("[t=%s] %s -> %s", begin.Format("05.000"), op, out))
		if mis != "" {
			if lv := m.Live(k.key); k.isEvent && !control && lv != nil && !k.lastBegin.IsZero() && begin.Sub(k.lastBegin) >= effTTL-slack && mode == "native" {
				// the event had already expired natively when the write arrived: legitimate, the client sees it as absent
				m.Del(k.key, lv.Rev)
				hist = append(hist, "    (the event had expired natively before this write)")
				return true
			}
			c.Violatef("C17 write-outcome-differs kind="+op.Kind, wit(), "%s", mis)
			return false
		}
		if out.Succeeded {
			k.lastBegin = begin
			clientEvents++
		}
		return true
	}
	for _, k := range keys {
		if !write(k, harness.SeqOp{Kind: "create", Key: k.key, Val: []byte("v1")}) {
			return
		}
	}
	// events that are deleted and created again before any compaction (the new index record replaces a deletion
	// marker - a different storage write than a first creation - and must carry the expiry all the same)
	for _, k := range []*c17Key{keys[0], keys[2], keys[3]} {
		if r.Intn(2) == 0 {
			continue
		}
		lv := m.Live(k.key)
		if lv == nil || !write(k, harness.SeqOp{Kind: "delete", Key: k.key, Exp: lv.Rev}) {
			return
		}
		if !write(k, harness.SeqOp{Kind: "create", Key: k.key, Val: []byte("v1-again")}) {
			return
		}
		c.Stat("keys_recreated_over_their_deletion_marker", 1)
	}
	// some multi-version keys
	for i := 0; i < 3; i++ {
		k := keys[r.Intn(len(keys))]
		if lv := m.Live(k.key); lv != nil {
			if !write(k, harness.SeqOp{Kind: "update", Key: k.key, Val: []byte(fmt.Sprintf("v2-%d", i)), Exp: lv.Rev}) {
				return
			}
		}
	}
	olderRev := uint64(0) // if set, the next compaction names this (older) revision instead of the current one
	compact := func(label string) time.Time {
		rev := n.Committed()
		if olderRev != 0 {
			rev, olderRev = olderRev, 0
		}
		if sc != nil {
			start, end := coderC.EncodeObjectKey([]byte(full), 0), coderC.EncodeObjectKey(backend.PrefixEnd([]byte(full)), 0)
			sc.Compact(harness.Ctx, start, end, rev)
		} else if _, err := n.B.Compact(harness.Ctx, rev); err != nil {
			c.Violatef("C17 compact-error", wit(), "Compact(%d): %v", rev, err)
		}
		t := time.Now()
		hist = append(hist, fmt.Sprintf("[t=%s] %s compaction at revision %d returned", t.Format("05.000"), label, rev))
		return t
	}
	compact("first (mark)")
	// pause longer than the TTL, then make some events younger
	pause := effTTL + effTTL/3 + time.Duration(r.Intn(200))*time.Millisecond
	if control {
		pause = 400 * time.Millisecond
	}
	// an event updated half-way through the pause (on native-TTL engines its creation timer is still pending)
	first := pause / 2
	if slack > 0 {
		first = pause / 4 // stay clear of the engine's one-second expiry granularity
	}
	time.Sleep(first)
	young := keys[1]
	if lv := m.Live(young.key); lv != nil {
		if !write(young, harness.SeqOp{Kind: "update", Key: young.key, Val: []byte("younger"), Exp: lv.Rev}) {
			return
		}
		young.updated = true
	}
	time.Sleep(pause - first)
	fresh := &c17Key{key: P + "/events/ns/fresh", isEvent: true}
	keys = append(keys, fresh)
	if !write(fresh, harness.SeqOp{Kind: "create", Key: fresh.key, Val: []byte("new")}) {
		return
	}
	// placement: when the expiry is about to remove the index record of an old event, a client updates that event
	// first (the update lands between the scan reading the index and deleting it)
	raced := keys[2]
	racedDone := false
	if !control && c.Index%2 == 1 {
		raceHook = func(kind string, key []byte) {
			raw, rev, derr := coderC.Decode(key)
			if racedDone || derr != nil || rev != 0 || string(raw) != raced.key {
				return
			}
			racedDone = true
			if lv := m.Live(raced.key); lv != nil {
				hist = append(hist, "    (placed: the following update lands just before the expiry deletes this event's index record)")
				write(raced, harness.SeqOp{Kind: "update", Key: raced.key, Val: []byte("raced"), Exp: lv.Rev})
				raced.updated = true
			}
		}
	}
	// or: the engine fails the removal of one old event's index record once (a transient storage error)
	faulted := keys[0]
	faultFired := false
	if !control && c.Index%4 == 2 {
		faultHook = func(kind string, key []byte) error {
			raw, rev, derr := coderC.Decode(key)
			if faultFired || derr != nil || rev != 0 || string(raw) != faulted.key {
				return nil
			}
			faultFired = true
			hist = append(hist, "    (injected: the removal of this event's index record fails once with a storage error)")
			return harness.ErrInjected
		}
	}
	if !control && c.Index%3 == 1 {
		// the second compaction names an OLDER revision than the first one did (a client's explicit request, or the
		// background loop's current-1000): the events it meets lie above its revision, expiry must still be whole
		olderRev = n.Start + 1 + uint64(r.Intn(8))
		c.Stat("second_compactions_at_an_older_revision", 1)
	}
	tEnd := compact("second")
	raceHook, faultHook = nil, nil
	if faultFired {
		c.Stat("storage_errors_injected_into_expiry", 1)
	}
	if racedDone {
		c.Stat("updates_placed_inside_expiry", 1)
	}
	// give native TTL timers a moment (memkv fires timers asynchronously)
	time.Sleep(50 * time.Millisecond)
	tEnd = time.Now()

	// ---- observe the store
	dump, derr := harness.Dump(eng.KV, []byte{0}, []byte{0xff, 0xff, 0xff, 0xff, 0xff})
	if derr != nil {
		c.Inconclusive("dump failed")
		return
	}
	hasIndex := map[string]bool{}
	versions := map[string]int{}
	for _, rec := range dump {
		if len(rec.Key) < 13 {
			continue
		}
		raw, rev, err := coderC.Decode(rec.Key)
		if err != nil {
			continue
		}
		if rev == 0 {
			hasIndex[string(raw)] = true
		} else {
			versions[string(raw)]++
		}
	}
	expired := 0
	var expiredSet []string
	for _, k := range keys {
		live := m.Live(k.key)
		if live == nil {
			continue
		}
		g, gerr := n.Get(k.key, 0)
		readable := gerr == nil && g.Kv != nil && bytes.Equal(g.Kv.Value, live.Val) && g.Kv.Revision == live.Rev
		intact := hasIndex[k.key] && versions[k.key] >= 1 && readable
		if intact {
			continue
		}
		// something of this key is gone although no client deleted it
		age := tEnd.Sub(k.lastBegin)
		desc := fmt.Sprintf("key %q: index present=%v, version records=%d, Get at latest=%v (client state: (%q,%d), newest write began %s before the observation)", k.key, hasIndex[k.key], versions[k.key], g.GetKv(), live.Val, live.Rev, age.Round(time.Millisecond))
		switch {
		case !k.isEvent:
			sig := "C17 non-event-key-expired"
			if bytes.Contains([]byte(k.key), []byte("/events/")) {
				sig += " name-contains-/events/"
			}
			c.Violatef(sig, wit(), "%s — it is not an Event record directly under %s/events/", desc, P)
		case control:
			c.Violatef("C17 expired-before-ttl ttl=1h", wit(), "%s — with a TTL of one hour", desc)
		case age < effTTL-slack:
			sig := "C17 expired-before-ttl"
			if k.updated {
				sig += " event-updated-after-creation"
			}
			c.Violatef(sig, wit(), "%s — younger than the TTL %s", desc, effTTL)
		case hasIndex[k.key] || versions[k.key] > 0 || (g != nil && g.Kv != nil):
			c.Violatef("C17 expired-key-not-removed-wholly", wit(), "%s — index and versions must go together", desc)
		default:
			expired++
			expiredSet = append(expiredSet, k.key)
			// wholly removed: it can be created again
			out := n.Do(harness.SeqOp{Kind: "create", Key: k.key, Val: []byte("again")})
			if out.Err != "" || !out.Succeeded {
				c.Violatef("C17 expired-key-cannot-be-created-again", wit(), "create of the expired key %q answered %s", k.key, out)
			} else {
				clientEvents++
				m.Del(k.key, out.Rev-1)
				m.Put(k.key, out.Rev, []byte("again"))
				n.WaitCommitted(out.Rev, 30*time.Second)
			}
		}
	}
	// list inside the prefix equals the client state minus the legitimately expired keys
	l, lerr := n.List(full, string(backend.PrefixEnd([]byte(full))), 0, 0)
	if lerr != nil {
		c.Violatef("C17 list-error", wit(), "List: %v", lerr)
	} else if c.R.Verdict == "held" {
		want := m.Snapshot(full, string(backend.PrefixEnd([]byte(full))), ^uint64(0))
		if !sameKVs(want, l.Kvs) {
			c.Violatef("C17 list-differs-after-expiry", wit(), "List = %s; expected %s", kvStr(l.Kvs), mkvStr(want))
		}
	}
	// the watcher saw only client writes
	sent := n.Do(harness.SeqOp{Kind: "create", Key: P + "/zz-sentinel", Val: []byte("s")})
	clientEvents++
	got := 0
	deadline := time.After(60 * time.Second)
loop:
	for {
		select {
		case b, ok := <-wch:
			if !ok {
				break loop
			}
			got += len(b)
			if b[len(b)-1].Revision >= sent.Rev {
				break loop
			}
		case <-deadline:
			c.Inconclusive("watchdog waiting for sentinel event")
			return
		}
	}
	if got != clientEvents {
		c.Violatef("C17 watch-event-count-differs", wit(), "the watcher received %d events, clients made %d successful writes (expiry must not produce events)", got, clientEvents)
	}
	c.Stat("keys_expired", int64(expired))
	c.Stat("keys_observed", int64(len(keys)))
	c.AddSet("kinds", kindName)
	if leases {
		c.Stat("cases_whose_writes_carried_a_lease_id", 1)
	}
	c.Fingerprint(expired > 0, kindName, expiredSet, c.Index)
	if c.Index < len(c17Kinds) {
		c.R.Sample = map[string]interface{}{"kind": kindName, "ttl": effTTL.String(), "expired": expiredSet, "history_tail": tailStr(hist, 8)}
	}
	_ = proto.Event_DELETE
}

func replaceSlash(s string) string {
	b := []byte(s)
	for i := range b {
		if b[i] == '/' {
			b[i] = ' '
		}
	}
	return string(b)
}

func tailStr(h []string, n int) []string {
	if len(h) > n {
		return h[len(h)-n:]
	}
	return h
}
