package props

import (
	"context"
	"fmt"
	"os"
	"path/filepath"
	"sync"
	"sync/atomic"
	"time"

	pb "github.com/kubewharf/kubebrain-client/api/v2rpc"
	"go.etcd.io/etcd/api/v3/etcdserverpb"

	"github.com/kubewharf/kubebrain/pkg/backend"
	"github.com/kubewharf/kubebrain/pkg/endpoint"

	"verif/internal/harness"
)

// C19 — concurrent requests are free of data races. The worker is built with -race and re-runs the
// concurrent workloads of the other checks on the in-process engines; the oracle is the race
// detector's log (parsed by the driver), not the workloads' own verdicts.

type c19Item struct {
	name string
	run  func(c *harness.Case)
}

var c19Items []c19Item

func init() {
	inproc := []string{"memkv", "badger", "memkv+m"}
	c19Items = []c19Item{
		{"writers+readers(C04 workload)", func(c *harness.Case) {
			cfg := concCase(c, "C04")
			cfg.kind = inproc[c.Index%len(inproc)]
			cfg.noIdle = true // production sequencer timing
			cr := newConcRun(c, cfg)
			if cr == nil {
				return
			}
			defer cr.close()
			cr.run(c)
		}},
		{"list-then-watch+compaction(C06 workload)", func(c *harness.Case) { runC06onEngine(c, inproc[c.Index%len(inproc)]) }},
		{"watchers-joining-leaving(C05 stress)", runC05Stress},
		{"compaction-vs-writers(C07 concurrent)", func(c *harness.Case) { runC07Concurrent(c, inproc[c.Index%2]) }},
		{"watch-overflow(C05 overflow)", func(c *harness.Case) { runC05Overflow(c, false) }},
		{"async-retry(C09 faults)", runC19Retry},
		{"watch-overflow+subscribers-joining-leaving", runC19OverflowChurn},
		{"lock-candidates(C14 concurrent)", runC14Concurrent},
		{"two-nodes-follower-reads(C18 stress)", func(c *harness.Case) { runC18TwoNodes(c, false, false) }},
		{"watch-catch-up-on-a-small-wrapping-cache", runC19CatchUp},
		{"two-real-nodes-over-grpc(servers, syncer, election, metrics)", runC19Servers},
		{"coder-from-many-goroutines(short keys)", func(c *harness.Case) { _ = concurrentRoundTrips(c.Rng.Int63(), 8, 4000) }},
		{"multi-partition-scans-failing-in-several-partitions", runC19FailingScans},
		{"overlapping-compactions-on-engines-without-native-ttl", runC19Compactions},
		{"follower-becomes-leader(C15 fail-over)", func(c *harness.Case) { c.Index = (c.Index / 6) * 6; runC15(c) }},
	}
	Registry["C19"] = &Prop{
		Plan: func(tier string) Plan {
			return Plan{Level: "exploration", Race: true, NCases: pick(tier, 5, 150) * len(c19Items), Batch: 3, CaseTimeout: 150,
				Rule: "the worker is built with -race (GORACE halt_on_error=0, log_path) and runs the concurrent workloads of C04 (writers, point and range readers, injected errors), C06 (observers, watchers, compactor), C05 (watchers joining/leaving/overflowing), C07 (compaction against writers), C09 (async retry after injected unknown outcomes) a small watch cache (8-64 events) that wraps under continuous writers while watches from revisions still inside it are registered, C14 (lock candidates), two complete nodes from server.NewServer (leader and follower, real Campaign / peer endpoint / revision syncer / Prometheus client) each driven by four concurrent gRPC clients sending every request type, C15 (a follower serving concurrent reads, then taking over) and C18 (leader/follower pair with the real revision syncer) on memkv and Badger with production sequencer timing, each repeated with different seeds. " +
					"oracle = number of 'WARNING: DATA RACE' blocks whose access stacks contain a frame in github.com/kubewharf/kubebrain/ (this covers huandu/skiplist reached through memkv and Badger reached through the adapter), deduplicated by the pair of innermost kubebrain functions. " +
					"non-trivial+distinct = workload kinds x seeds that ran to completion under the detector",
				Assumptions: []string{"the race detector only sees the executions produced; reports entirely inside the TiKV mock or the harness are listed separately and do not decide the property",
					"the workloads' own functional verdicts are ignored here (their checks run separately without -race)"},
				MinConcl: pick(tier, 15, 450)}
		},
		Name: func(c *harness.Case) string { return c19Items[c.Index%len(c19Items)].name },
		Run: func(c *harness.Case) {
			it := c19Items[c.Index%len(c19Items)]
			it.run(c)
			// functional verdicts belong to the other checks; here only completion matters
			if c.R.Verdict == "violated" {
				c.R.Verdict, c.R.Violations = "held", nil
			}
			c.AddSet("workloads", it.name)
			c.Fingerprint(true, it.name, c.Index)
			c.R.Sample = nil
			if c.Index < len(c19Items) {
				c.R.Sample = map[string]interface{}{"workload": it.name, "stats": c.R.Stats}
			}
		},
	}
}

// runC19Retry drives the async retry loop (unknown outcomes) while other clients write.
func runC19Retry(c *harness.Case) {
	c.Index = c.Index / len(c19Items) * c09Chunks // map onto a C09 history, chunk 0
	runC09(c)
}

// runC19OverflowChurn: one watcher never reads until the hub drops it as a slow consumer, while other
// clients keep subscribing and cancelling watches and a healthy watcher keeps reading.
func runC19OverflowChurn(c *harness.Case) {
	rg := newWatchRig(c, "memkv", 64, nil, true)
	if rg == nil {
		return
	}
	defer rg.close()
	P := harness.Prefix + "/p/"
	ctx, cancel := context.WithCancel(context.Background())
	defer cancel()
	stalled, err := rg.n.B.Watch(ctx, P, 0)
	if err != nil {
		c.Inconclusive("watch refused")
		return
	}
	healthy, err := rg.n.B.Watch(ctx, P, 0)
	if err != nil {
		c.Inconclusive("watch refused")
		return
	}
	var delivered int64
	go func() {
		for evs := range healthy {
			atomic.AddInt64(&delivered, int64(len(evs)))
		}
	}()
	var stop int32
	var churns int64
	var wg sync.WaitGroup
	for g := 0; g < 2; g++ {
		wg.Add(1)
		go func() {
			defer wg.Done()
			for atomic.LoadInt32(&stop) == 0 {
				wctx, wcancel := context.WithCancel(ctx)
				if ch, err := rg.n.B.Watch(wctx, P, 0); err == nil {
					wcancel()
					for range ch {
					}
				} else {
					wcancel()
				}
				atomic.AddInt64(&churns, 1)
			}
		}()
	}
	key := harness.Prefix + "/p/k"
	out := rg.do(harness.SeqOp{Kind: "create", Key: key, Val: []byte("v0")}, true)
	last := out.Rev
	for i := 1; i < 10100+400; i++ {
		o := rg.do(harness.SeqOp{Kind: "update", Key: key, Val: []byte("v"), Exp: last}, true)
		if o.Err != "" || !o.Succeeded {
			break
		}
		last = o.Rev
	}
	atomic.StoreInt32(&stop, 1)
	wg.Wait()
	drained := 0
	tm := time.After(30 * time.Second)
loop:
	for {
		select {
		case _, ok := <-stalled:
			if !ok {
				break loop
			}
			drained++
		case <-tm:
			break loop
		}
	}
	c.Stat("subscribe_cancel_cycles_during_overflow", atomic.LoadInt64(&churns))
	c.Stat("batches_drained_from_dropped_watcher", int64(drained))
	c.Stat("events_delivered_to_healthy_watcher", atomic.LoadInt64(&delivered))
}

// runC19CatchUp: a watch cache of 8-64 events that wraps continuously under two writers, while several clients
// register watches from revisions that are still inside the cache (catch-up from the ring) and read a few batches.
func runC19CatchUp(c *harness.Case) {
	r := c.Rng
	size := []int{8, 16, 64}[r.Intn(3)]
	eng, err := harness.NewEngine("memkv")
	if err != nil {
		c.Inconclusive(err.Error())
		return
	}
	defer eng.Close()
	n := harness.NewNode(harness.NodeOpts{KV: eng.KV, NoIdleYield: true, Config: backend.Config{WatchCacheSize: size}})
	defer n.Retire()
	P := harness.Prefix + "/cu/"
	var stop int32
	var wg sync.WaitGroup
	var writes, watches, caught int64
	for w := 0; w < 2; w++ {
		wg.Add(1)
		go func(w int) {
			defer wg.Done()
			key := P + string(rune('a'+w))
			out := n.Do(harness.SeqOp{Kind: "create", Key: key, Val: []byte("v")})
			last := out.Rev
			for atomic.LoadInt32(&stop) == 0 {
				o := n.Do(harness.SeqOp{Kind: "update", Key: key, Val: []byte("v"), Exp: last})
				if o.Err == "" && o.Succeeded {
					last = o.Rev
				}
				atomic.AddInt64(&writes, 1)
			}
		}(w)
	}
	for g := 0; g < 4; g++ {
		wg.Add(1)
		rr := newRand(r.Int63())
		go func() {
			defer wg.Done()
			for atomic.LoadInt32(&stop) == 0 {
				cur := n.Committed()
				back := uint64(rr.Intn(size))
				if cur < n.Start+back+1 {
					continue
				}
				ctx, cancel := context.WithCancel(context.Background())
				ch, werr := n.B.Watch(ctx, P, cur-back)
				atomic.AddInt64(&watches, 1)
				if werr == nil {
					for i := 0; i < 3; i++ {
						select {
						case evs, ok := <-ch:
							if ok && len(evs) > 0 && evs[0].Revision <= cur {
								atomic.AddInt64(&caught, 1)
							}
						case <-time.After(20 * time.Millisecond):
						}
					}
				}
				cancel()
				if werr == nil {
					for range ch {
					}
				}
			}
		}()
	}
	time.Sleep(1500 * time.Millisecond)
	atomic.StoreInt32(&stop, 1)
	wg.Wait()
	c.Stat("catch_up_cache_size", int64(size))
	c.Stat("catch_up_writes", atomic.LoadInt64(&writes))
	c.Stat("catch_up_watches_registered", atomic.LoadInt64(&watches))
	c.Stat("catch_up_watches_served_from_the_cache", atomic.LoadInt64(&caught))
}

// runC19Servers: the layers above the backend under the detector - two complete nodes as cmd/option.Run starts them
// (pkg/endpoint with multiplexed client and peer ports, server.NewServer: real Campaign, revision syncer, etcd proxy;
// the real Prometheus client behind the recorder) over one store, one leading and one following, each driven by four concurrent gRPC clients
// sending every request type of both APIs for about a second, while watches are open on the leader.
func runC19Servers(c *harness.Case) {
	eng, err := harness.NewEngine("memkv")
	if err != nil {
		c.Inconclusive(err.Error())
		return
	}
	rm := harness.NewRecMetrics(true)
	kv := harness.WithMetrics(eng.KV, rm)
	// nodes as cmd/option.Run starts them (pkg/endpoint: multiplexed client/peer ports; etcd proxy on)
	sec := func() *endpoint.SecurityConfig { return &endpoint.SecurityConfig{} }
	if mode := []string{"off", "only", "both"}[(c.Index/len(c19Items))%3]; mode != "off" {
		// the peer port (revision syncer, etcd proxy) over TLS with client certificates, alone or next to plain connections
		cs, cerr := harness.NewCertSet(filepath.Join(harness.ScratchRoot, fmt.Sprintf("certs19-%d-%d", os.Getpid(), c.Index)))
		if cerr != nil {
			c.Inconclusive("certificates: " + cerr.Error())
			return
		}
		defer os.RemoveAll(cs.Dir)
		sec = func() *endpoint.SecurityConfig {
			return &endpoint.SecurityConfig{CertFile: cs.Cert, KeyFile: cs.Key, CA: cs.CA, AllowInsecure: mode == "both"}
		}
	}
	A, ok := newProdNodeSec(c, kv, rm, false, true, 256, sec())
	if !ok {
		return
	}
	defer A.close()
	P := harness.Prefix
	if A.waitLeads(P+"/srv/first") == nil {
		c.Inconclusive("the first node did not become leader within the watchdog")
		return
	}
	B, ok := newProdNodeSec(c, kv, rm, false, true, 256, sec())
	if !ok {
		return
	}
	defer B.close()
	ctx, cancel := context.WithCancel(context.Background())
	defer cancel()
	full := P + "/"
	fullEnd := string(backend.PrefixEnd([]byte(full)))
	encS, encE := coderC.EncodeObjectKey([]byte(full), 0), coderC.EncodeObjectKey([]byte(fullEnd), 0)
	var stop int32
	var wg sync.WaitGroup
	var sent int64
	for _, fn := range []*prodNode{A, B} {
		for g := 0; g < 4; g++ {
			wg.Add(1)
			rr := newRand(c.Rng.Int63())
			go func(fn *prodNode, g int) {
				defer wg.Done()
				e, b := fn.etcdGRPC, fn.brainGRPC
				for i := 0; atomic.LoadInt32(&stop) == 0; i++ {
					key := []byte(fmt.Sprintf("%s/srv/k%d", P, rr.Intn(4)))
					switch rr.Intn(14) {
					case 0:
						_, _ = b.Create(ctx, &pb.CreateRequest{Key: key, Value: []byte("v")})
					case 1:
						if gr, gerr := b.Get(ctx, &pb.GetRequest{Key: key}); gerr == nil && gr.Kv != nil {
							_, _ = b.Update(ctx, &pb.UpdateRequest{Kv: &pb.KeyValue{Key: key, Value: []byte("w"), Revision: gr.Kv.Revision}})
						}
					case 2:
						_, _ = b.Delete(ctx, &pb.DeleteRequest{Key: key})
					case 3:
						_, _ = b.Range(ctx, &pb.RangeRequest{Key: []byte(full), End: []byte(fullEnd), Limit: int64(rr.Intn(3))})
					case 4:
						_, _ = b.Count(ctx, &pb.CountRequest{Key: []byte(full), End: []byte(fullEnd)})
					case 5:
						_, _ = b.ListPartition(ctx, &pb.ListPartitionRequest{Key: []byte(full), End: []byte(fullEnd)})
					case 6:
						_ = b.RangeStream(&pb.RangeRequest{Key: encS, End: encE}, &fakeRangeStream{fakeStream: fakeStream{ctx: ctx}})
					case 7:
						wctx, wcancel := context.WithTimeout(ctx, 30*time.Millisecond)
						_ = b.Watch(&pb.WatchRequest{Key: []byte(full)}, &fakeBrainWatch{fakeStream: fakeStream{ctx: wctx}})
						wcancel()
					case 8:
						_, _ = e.Txn(ctx, etcdCreate(string(key), []byte("e")))
					case 9:
						_, _ = e.Range(ctx, &etcdserverpb.RangeRequest{Key: []byte(full), RangeEnd: []byte(fullEnd), Limit: int64(rr.Intn(3))})
					case 10:
						_, _ = e.Range(ctx, &etcdserverpb.RangeRequest{Key: []byte(full), RangeEnd: []byte(fullEnd), CountOnly: true})
					case 11:
						_, _ = e.Txn(ctx, etcdUnguardedDelete(string(key)))
					case 12:
						wc, wcancel := context.WithTimeout(ctx, 30*time.Millisecond)
						fw := newFakeWatchServer(wc)
						done := make(chan error, 1)
						go func() { done <- e.Watch(fw) }()
						cr := &etcdserverpb.WatchCreateRequest{Key: []byte(full), RangeEnd: []byte(fullEnd)}
						if rr.Intn(2) == 0 {
							cr = &etcdserverpb.WatchCreateRequest{Key: encS, RangeEnd: encE, StartRevision: -int64(fn.n.Committed())}
						}
						select {
						case fw.in <- &etcdserverpb.WatchRequest{RequestUnion: &etcdserverpb.WatchRequest_CreateRequest{CreateRequest: cr}}:
						case <-wc.Done():
						}
						select {
						case <-done:
						case <-wc.Done():
						}
						wcancel()
					case 13:
						_, _ = b.Compact(ctx, &pb.CompactRequest{Revision: fn.n.Committed() - 1})
					}
					atomic.AddInt64(&sent, 1)
				}
			}(fn, g)
		}
	}
	time.Sleep(1200 * time.Millisecond)
	atomic.StoreInt32(&stop, 1)
	wg.Wait()
	c.Stat("requests_to_two_real_nodes_over_grpc", atomic.LoadInt64(&sent))
}

// runC19FailingScans: an engine that splits every scan into several partitions, scans whose partition workers fail
// at the same time (iterator errors in every partition, and request contexts cancelled mid-way), next to scans
// that succeed.
func runC19FailingScans(c *harness.Case) {
	r := c.Rng
	var keys []string
	for i := 0; i < 12; i++ {
		keys = append(keys, fmt.Sprintf("%s/fs/k%02d", harness.Prefix, i))
	}
	kv, eng, _, ok := partitionedStore(c, newRand(r.Int63()), []string{"memkv", "tikv"}[c.Index%2], keys, 1000, 40)
	if !ok {
		return
	}
	defer eng.Close()
	w := harness.NewWrap(kv)
	n := harness.NewNode(harness.NodeOpts{KV: w, NoIdleYield: true})
	defer n.Retire()
	for _, k := range keys {
		out := n.Do(harness.SeqOp{Kind: "create", Key: k, Val: []byte("v")})
		n.Do(harness.SeqOp{Kind: "update", Key: k, Val: []byte("w"), Exp: out.Rev})
	}
	n.WaitCommitted(n.Dealt(), 30*time.Second)
	var failing int32
	w.IterFault = func(start, end []byte, k int) error {
		if atomic.LoadInt32(&failing) == 1 && k >= 1 {
			return fmt.Errorf("injected iterator error")
		}
		return nil
	}
	full := harness.Prefix + "/"
	fullEnd := string(backend.PrefixEnd([]byte(full)))
	var wg sync.WaitGroup
	var scans int64
	for g := 0; g < 4; g++ {
		wg.Add(1)
		go func(g int) {
			defer wg.Done()
			for i := 0; i < 6; i++ {
				ctx, cancel := context.WithCancel(context.Background())
				if (i+g)%3 == 0 {
					go func() { time.Sleep(time.Duration(100*(g+1)) * time.Microsecond); cancel() }()
				}
				_, _ = n.B.List(ctx, &pb.RangeRequest{Key: []byte(full), End: []byte(fullEnd)})
				_, _ = n.B.Count(ctx, &pb.CountRequest{Key: []byte(full), End: []byte(fullEnd)})
				cancel()
				atomic.AddInt64(&scans, 2)
			}
		}(g)
	}
	time.Sleep(2 * time.Millisecond)
	atomic.StoreInt32(&failing, 1) // every partition of the scans under way (and of their retries) fails
	wg.Wait()
	atomic.StoreInt32(&failing, 0)
	c.Stat("scans_with_failing_partitions", atomic.LoadInt64(&scans))
}

// runC19Compactions: several compaction requests overlap on one node (a client's Compact, the leader's own loop, the
// apiserver's compactor) while a client writes Events; the engine has no native TTL (TiKV mock, or memkv behind a
// wrapper reporting none), so every request also consults and extends the node's compaction history for the expiry mark.
func runC19Compactions(c *harness.Case) {
	kind := []string{"tikv", "memkv"}[(c.Index/len(c19Items))%2]
	eng, err := harness.NewEngine(kind)
	if err != nil {
		c.Inconclusive(err.Error())
		return
	}
	defer eng.Close()
	w := harness.NewWrap(eng.KV)
	w.NoTTL = true
	backend.VerifSetEventsTTL(1)
	defer backend.VerifSetEventsTTL(3600)
	n := harness.NewNode(harness.NodeOpts{KV: w, NoIdleYield: true})
	defer n.Retire()
	var stop int32
	var wg sync.WaitGroup
	wg.Add(1)
	go func() {
		defer wg.Done()
		for i := 0; atomic.LoadInt32(&stop) == 0 && i < 4000; i++ {
			k := fmt.Sprintf("%s/events/ns/e%03d", harness.Prefix, i%40)
			out := n.Do(harness.SeqOp{Kind: "create", Key: k, Val: []byte("e")})
			if !out.Succeeded {
				if g, gerr := n.Get(k, 0); gerr == nil && g.Kv != nil {
					n.Do(harness.SeqOp{Kind: "update", Key: k, Val: []byte("f"), Exp: g.Kv.Revision})
				}
			}
		}
	}()
	var compactions int64
	var cwg sync.WaitGroup
	for g := 0; g < 4; g++ {
		cwg.Add(1)
		go func(g int) {
			defer cwg.Done()
			for i := 0; i < 25; i++ {
				if _, cerr := n.B.Compact(harness.Ctx, 0); cerr == nil {
					atomic.AddInt64(&compactions, 1)
				}
				time.Sleep(time.Duration(200*(g+1)) * time.Microsecond)
			}
		}(g)
	}
	cwg.Wait()
	atomic.StoreInt32(&stop, 1)
	wg.Wait()
	c.Stat("overlapping_compaction_requests", atomic.LoadInt64(&compactions))
	c.AddSet("engines_without_native_ttl", kind)
}
