package props

import (
	"context"
	"errors"
	"fmt"
	"io"
	"net"
	"net/http"
	"os"
	"sync/atomic"
	"time"

	pb "github.com/kubewharf/kubebrain-client/api/v2rpc"
	"go.etcd.io/etcd/api/v3/etcdserverpb"

	"github.com/kubewharf/kubebrain/pkg/backend"
	"github.com/kubewharf/kubebrain/pkg/server"
	"github.com/kubewharf/kubebrain/pkg/storage"

	"verif/internal/harness"
)

// runC20Tour: C20 quantifies over "all metric emission call sites in the program". The hostile-request cases reach
// the sites of a healthy leader; this case walks one worker process through the others with the REAL Prometheus
// client (whose registry is process-global, so two call sites that disagree about a metric's kind or label names
// panic whoever comes second): two complete nodes built by server.NewServer over one store - real Campaign, real
// peer HTTP endpoint, real revision syncer, gRPC with the production interceptors - one leading, one following;
// every request type on both; lease / cluster calls; an unknown outcome repaired by the retry loop; a compaction
// with a failing delete and a failing record write; an iterator error; a watcher that overflows; the follower's
// leader becoming unreachable. Oracle: no crash, no handler error other than a refusal, no metric emitted with two
// (kind, label-name) signatures anywhere in the process, and the leader still serves a probe afterwards.
func runC20Tour(c *harness.Case) {
	backend.VerifSetRetryIntervals(30*time.Millisecond, 10*time.Millisecond)
	eng, err := harness.NewEngine("memkv")
	if err != nil {
		c.Inconclusive(err.Error())
		return
	}
	// the engine is never closed: the two election loops cannot be stopped and keep renewing on it
	rm := harness.NewRecMetrics(true)
	w := harness.NewWrap(eng.KV)
	kv := harness.WithMetrics(w, rm)
	var steps []string
	wit := func() interface{} { return map[string]interface{}{"steps": steps} }
	step := func(format string, a ...interface{}) {
		s := fmt.Sprintf(format, a...)
		steps = append(steps, s)
		fmt.Fprintf(os.Stderr, "C20 tour case %d: %s\n", c.Index, s)
	}
	mk := func(name string) (*fullNode, bool) { return newFullNode(c, kv, rm, name == "leader") }
	A, ok := mk("leader")
	if !ok {
		return
	}
	defer A.n.Retire()
	ctx := context.Background()
	P := harness.Prefix
	// wait until A leads (its Campaign creates the lock at once)
	if A.waitLeads(P+"/tour/first") == nil {
		c.Inconclusive("the first node did not become leader within the watchdog")
		return
	}
	step("node A (%s) leads", A.addr)
	B, ok := mk("follower")
	if !ok {
		return
	}
	defer B.n.Retire()
	step("node B (%s) follows", B.addr)
	full := P + "/"
	fullEnd := string(backend.PrefixEnd([]byte(full)))
	encS, encE := coderC.EncodeObjectKey([]byte(full), 0), coderC.EncodeObjectKey([]byte(fullEnd), 0)
	refusal := func(err error) bool { return err != nil }
	_ = refusal
	// every request type on one node; returns the number of handler errors
	drive := func(who string, fn *fullNode, follower bool) {
		e, b := fn.g.etcdGRPC, fn.g.brainGRPC
		key := []byte(fmt.Sprintf("%s/tour/%s", P, who))
		_, err1 := b.Create(ctx, &pb.CreateRequest{Key: key, Value: []byte("v1")})
		g, _ := b.Get(ctx, &pb.GetRequest{Key: []byte(P + "/tour/first")})
		rev := g.GetKv().GetRevision()
		_, err2 := b.Update(ctx, &pb.UpdateRequest{Kv: &pb.KeyValue{Key: []byte(P + "/tour/first"), Value: []byte("v2"), Revision: rev}})
		_, err3 := b.Delete(ctx, &pb.DeleteRequest{Key: key})
		_, err4 := b.Compact(ctx, &pb.CompactRequest{Revision: 1})
		_, err5 := b.Range(ctx, &pb.RangeRequest{Key: []byte(full), End: []byte(fullEnd)})
		_, err6 := b.Count(ctx, &pb.CountRequest{Key: []byte(full), End: []byte(fullEnd)})
		_, err7 := b.ListPartition(ctx, &pb.ListPartitionRequest{Key: []byte(full), End: []byte(fullEnd)})
		frs := &fakeRangeStream{fakeStream: fakeStream{ctx: ctx}}
		err8 := b.RangeStream(&pb.RangeRequest{Key: encS, End: encE}, frs)
		wctx, wcancel := context.WithTimeout(ctx, 300*time.Millisecond)
		fbw := &fakeBrainWatch{fakeStream: fakeStream{ctx: wctx}}
		if !follower {
			// a write while the watch is open, so that events are pushed to the stream
			go func() {
				time.Sleep(60 * time.Millisecond)
				_, _ = b.Create(ctx, &pb.CreateRequest{Key: []byte(P + "/tour/ev-native"), Value: []byte("e")})
			}()
		}
		err9 := b.Watch(&pb.WatchRequest{Key: []byte(full), Revision: 0}, fbw)
		wcancel()
		_, err10 := e.Txn(ctx, etcdCreate(string(key)+"-e", []byte("v")))
		_, err11 := e.Range(ctx, &etcdserverpb.RangeRequest{Key: []byte(full), RangeEnd: []byte(fullEnd)})
		_, err12 := e.Range(ctx, &etcdserverpb.RangeRequest{Key: []byte(full), RangeEnd: []byte(fullEnd), CountOnly: true})
		_, err13 := e.Compact(ctx, &etcdserverpb.CompactionRequest{Revision: 1})
		_, err14 := e.LeaseGrant(ctx, &etcdserverpb.LeaseGrantRequest{TTL: 10})
		_, _ = e.LeaseRevoke(ctx, &etcdserverpb.LeaseRevokeRequest{ID: 10})
		_, _ = e.LeaseTimeToLive(ctx, &etcdserverpb.LeaseTimeToLiveRequest{ID: 10})
		lc := etcdserverpb.NewLeaseClient(fn.g.conn)
		_, _ = lc.LeaseLeases(ctx, &etcdserverpb.LeaseLeasesRequest{})
		if ka, kerr := lc.LeaseKeepAlive(ctx); kerr == nil {
			_ = ka.Send(&etcdserverpb.LeaseKeepAliveRequest{ID: 10})
			_, _ = ka.Recv()
		}
		_, err15 := etcdserverpb.NewClusterClient(fn.g.conn).MemberList(ctx, &etcdserverpb.MemberListRequest{})
		// etcd watch (from now) and range stream
		for _, neg := range []bool{false, true} {
			wc, cancel := context.WithTimeout(ctx, 400*time.Millisecond)
			fw := newFakeWatchServer(wc)
			done := make(chan error, 1)
			go func() { done <- e.Watch(fw) }()
			cr := &etcdserverpb.WatchCreateRequest{Key: []byte(full), RangeEnd: []byte(fullEnd), StartRevision: 0}
			if neg {
				cr = &etcdserverpb.WatchCreateRequest{Key: encS, RangeEnd: encE, StartRevision: -int64(fn.n.Committed())}
			}
			fw.in <- &etcdserverpb.WatchRequest{RequestUnion: &etcdserverpb.WatchRequest_CreateRequest{CreateRequest: cr}}
			if !follower && !neg {
				time.Sleep(60 * time.Millisecond)
				_, _ = b.Create(ctx, &pb.CreateRequest{Key: []byte(P + "/tour/ev-etcd"), Value: []byte("e")})
			}
			select {
			case <-done:
			case <-wc.Done():
			}
			cancel()
		}
		errs := []error{err1, err2, err3, err4, err5, err6, err7, err8, err9, err10, err11, err12, err13, err14, err15}
		n := 0
		for _, x := range errs {
			if x != nil && !errors.Is(x, io.EOF) {
				n++
			}
		}
		step("%s: all request types sent, %d answered with an error", who, n)
		if !follower {
			// on the leader nothing but the watch time-outs may fail
			for i, x := range []error{err1, err2, err3, err4, err5, err6, err7, err8, err10, err11, err12, err13, err14, err15} {
				if x != nil {
					c.Violatef("C20 leader-request-failed-during-tour", wit(), "request #%d of the tour failed on the leader: %v", i, x)
				}
			}
		}
	}
	drive("leader", A, false)
	drive("follower", B, true)
	// the non-leader's /status and /election endpoints, the leader's too
	for _, u := range []string{"http://" + B.addr + "/status", "http://" + A.addr + "/status", "http://" + A.addr + "/election", "http://" + B.addr + "/health"} {
		if resp, herr := http.Get(u); herr == nil {
			io.Copy(io.Discard, resp.Body)
			resp.Body.Close()
		}
	}
	step("peer endpoints queried")
	// an unknown outcome repaired by the retry loop
	var armed int32 = 1
	w.Decide = func(b *harness.BatchInfo) harness.Decision {
		if _, _, _, okw := b.Write(); okw && atomic.CompareAndSwapInt32(&armed, 1, 0) {
			return harness.UncertainApplied
		}
		return harness.Pass
	}
	_, uerr := A.g.brainGRPC.Create(ctx, &pb.CreateRequest{Key: []byte(P + "/tour/unknown"), Value: []byte("v")})
	w.Decide = nil
	for i := 0; i < 2000 && (A.n.RetryQueueLen() > 0 || A.n.Committed() != A.n.Dealt()); i++ {
		time.Sleep(5 * time.Millisecond)
	}
	step("unknown outcome injected (answer: %v), retry queue now %d", uerr, A.n.RetryQueueLen())
	// a compaction whose first delete fails, one whose record write fails, and a scan whose iterator fails once
	for i := 0; i < 6; i++ {
		g, _ := A.g.brainGRPC.Get(ctx, &pb.GetRequest{Key: []byte(P + "/tour/first")})
		_, _ = A.g.brainGRPC.Update(ctx, &pb.UpdateRequest{Kv: &pb.KeyValue{Key: []byte(P + "/tour/first"), Value: []byte(fmt.Sprintf("m%d", i)), Revision: g.GetKv().GetRevision()}})
	}
	A.n.WaitCommitted(A.n.Dealt(), 30*time.Second)
	var delArmed int32 = 1
	w.DelFault = func(kind string, key []byte) error {
		if atomic.CompareAndSwapInt32(&delArmed, 1, 0) {
			return harness.ErrInjected
		}
		return nil
	}
	_, cerr := A.g.brainGRPC.Compact(ctx, &pb.CompactRequest{Revision: A.n.Committed()})
	w.DelFault = nil
	step("compaction with one failing delete: %v", cerr)
	var recArmed int32 = 1
	w.Decide = func(b *harness.BatchInfo) harness.Decision {
		if _, _, _, okw := b.Write(); !okw && atomic.CompareAndSwapInt32(&recArmed, 1, 0) {
			return harness.FailDefinite // the compaction record write
		}
		return harness.Pass
	}
	_, cerr = A.g.brainGRPC.Compact(ctx, &pb.CompactRequest{Revision: A.n.Committed()})
	w.Decide = nil
	step("compaction whose record write fails: %v", cerr)
	var itArmed int32 = 1
	w.IterFault = func(start, end []byte, n int) error {
		if n == 2 && atomic.CompareAndSwapInt32(&itArmed, 1, 0) {
			return errors.New("injected transient iterator error")
		}
		return nil
	}
	_, lerr := A.g.brainGRPC.Range(ctx, &pb.RangeRequest{Key: []byte(full), End: []byte(fullEnd)})
	w.IterFault = nil
	step("range with one iterator error: %v", lerr)
	// a watcher that never reads until the hub drops it
	octx, ocancel := context.WithCancel(ctx)
	stalled, werr := A.n.B.Watch(octx, P+"/tour/", 0)
	if werr == nil {
		key := P + "/tour/burst"
		cr, _ := A.g.brainGRPC.Create(ctx, &pb.CreateRequest{Key: []byte(key), Value: []byte("0")})
		last := cr.GetHeader().GetRevision()
		for i := 0; i < 10600; i++ {
			u, uerr := A.g.brainGRPC.Update(ctx, &pb.UpdateRequest{Kv: &pb.KeyValue{Key: []byte(key), Value: []byte("x"), Revision: last}})
			if uerr != nil || !u.Succeeded {
				step("burst stopped after %d updates: %v %v", i, u, uerr)
				break
			}
			last = u.Header.GetRevision()
			A.n.WaitCommitted(last, 30*time.Second) // one event per batch
		}
		A.n.WaitCommitted(A.n.Dealt(), 60*time.Second)
		drained, closedByNode := 0, false
	drain:
		for {
			select {
			case _, okc := <-stalled:
				if !okc {
					closedByNode = true
					break drain
				}
				drained++
			case <-time.After(500 * time.Millisecond):
				break drain // the watch goroutine has nothing more to hand over
			}
		}
		step("overflowing watcher: %d batches buffered, stream closed by the node: %v", drained, closedByNode)
		if closedByNode {
			c.Stat("tour_overflow_drops", 1)
		}
	}
	ocancel()
	// the follower loses its leader's peer endpoint
	A.hs.Close()
	_, ferr := B.g.brainGRPC.Get(ctx, &pb.GetRequest{Key: []byte(P + "/tour/first")})
	step("follower read with the leader's peer endpoint closed: %v", ferr)
	// ---- verdicts
	step("verdicts")
	if inc := harness.GlobalInconsistentMetrics(); len(inc) > 0 {
		c.Violatef("C20 metric-emitted-with-two-signatures", wit(), "metrics emitted with more than one (kind, label names) signature in this process: %v", inc)
	}
	if missing, dup, _, _ := A.n.Conservation(); len(missing) > 0 || len(dup) > 0 {
		c.Violatef("C20 node-wedged-after-tour", wit(), "revisions never resolved %v / resolved twice %v", firstN(missing, 4), firstN(dup, 4))
	}
	step("conservation checked")
	pr, perr := A.g.brainGRPC.Create(ctx, &pb.CreateRequest{Key: []byte(P + "/tour/probe"), Value: []byte("p")})
	if perr != nil || !pr.Succeeded {
		c.Violatef("C20 probe-failed-after-tour", wit(), "probe create on the leader after the tour: %v %v", pr, perr)
	} else {
		A.n.WaitCommitted(pr.Header.GetRevision(), 30*time.Second)
		if g, gerr := A.g.brainGRPC.Get(ctx, &pb.GetRequest{Key: []byte(P + "/tour/probe")}); gerr != nil || g.Kv == nil {
			c.Violatef("C20 probe-failed-after-tour", wit(), "probe not readable after the tour: %v %v", g, gerr)
		}
	}
	step("probe done")
	for _, m := range rm.Names() {
		c.AddSet("metric_names_reached", m)
	}
	c.AddSet("transports", "grpc+real-servers(tour)")
	c.Stat("metric_call_site_tours", 1)
	c.Fingerprint(true, "tour", c.Index)
	c.R.Sample = map[string]interface{}{"tour_steps": steps}
}

// fullNode is a complete kubebrain node as cmd/option.Run wires it: backend, server.NewServer (real Campaign, peer
// HTTP endpoint, revision syncer), gRPC with the metrics client's interceptors.
type fullNode struct {
	n    *harness.Node
	g    *grpcNode
	addr string
	ln   net.Listener
	hs   *http.Server
}

func newFullNode(c *harness.Case, kv storage.KvStorage, rm *harness.RecMetrics, track bool) (*fullNode, bool) {
	ln, lerr := net.Listen("tcp", "127.0.0.1:0")
	if lerr != nil {
		c.Inconclusive("listen: " + lerr.Error())
		return nil, false
	}
	fn := &fullNode{addr: ln.Addr().String(), ln: ln}
	fn.n = harness.NewNode(harness.NodeOpts{KV: kv, SkipInit: true, Metrics: rm, TrackNotify: track,
		Config: backend.Config{Identity: fn.addr, EnableEtcdCompatibility: true, WatchCacheSize: 256}})
	srv := server.NewServer(fn.n.B, rm, server.Config{}) // starts the real Campaign
	mux := http.NewServeMux()
	for p, h := range srv.GetInfoHttpHandlers() {
		mux.Handle(p, h)
	}
	fn.hs = &http.Server{Handler: mux}
	go fn.hs.Serve(ln)
	g, gerr := newGRPCNodeFor(srv.RegisterClient, rm)
	if gerr != nil {
		c.Inconclusive("grpc: " + gerr.Error())
		return nil, false
	}
	fn.g = g
	return fn, true
}

// waitLeads issues creates until the node accepts one (its Campaign has won); returns the response.
func (fn *fullNode) waitLeads(key string) *pb.CreateResponse {
	deadline := time.Now().Add(40 * time.Second)
	for time.Now().Before(deadline) {
		if r, cerr := fn.g.brainGRPC.Create(context.Background(), &pb.CreateRequest{Key: []byte(key), Value: []byte("v")}); cerr == nil && r.Succeeded {
			fn.n.Start = r.Header.GetRevision() - 1 // the election callback initialised the revision; deposits are tracked from here
			return r
		}
		time.Sleep(5 * time.Millisecond)
	}
	return nil
}
