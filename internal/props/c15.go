package props

import (
	"bytes"
	"context"
	"errors"
	"fmt"
	"strconv"
	"strings"
	"sync"
	"sync/atomic"
	"time"

	apierrors "k8s.io/apimachinery/pkg/api/errors"
	metav1 "k8s.io/apimachinery/pkg/apis/meta/v1"
	"k8s.io/client-go/tools/leaderelection/resourcelock"

	pb "github.com/kubewharf/kubebrain-client/api/v2rpc"
	"google.golang.org/grpc/codes"
	"google.golang.org/grpc/status"

	"github.com/kubewharf/kubebrain/pkg/backend"
	"github.com/kubewharf/kubebrain/pkg/backend/coder"
	"github.com/kubewharf/kubebrain/pkg/server"
	"github.com/kubewharf/kubebrain/pkg/storage"

	"verif/internal/harness"
)

// C15 — revisions keep increasing across leader changes and restarts.

var c15Engines = []string{"memkv", "tikv", "badger", "memkv", "tikv", "badger-restart"}

func init() {
	Registry["C15"] = &Prop{
		Plan: func(tier string) Plan {
			return Plan{Level: "exploration", NCases: pick(tier, 48, 3600), Batch: 4, CaseTimeout: 120,
				Rule: "one case = an old leader elected through the real resourcelock.Interface (Get->Create, then the on-elected action of pkg/server/service/leader: parse the engine timestamp from Describe() and SetCurrentRevision), a PRNG history with bursts of failed writes (which consume revisions without touching the engine) and occasional lock renewals, the old leader stopping after a PRNG request, then a new backend over the same store (fail-over on memkv/TiKV mock/Badger — in half of the fail-over cases the new leader has been serving concurrent follower reads, i.e. adopting the old leader's revision from 8 goroutines, all along; close+reopen of the Badger directory for restart) elected the same way (Get->Update). " +
					"oracle: the new leader's start revision and the first revisions it hands out exceed every revision in the engine dump (version keys and index values); guarded update/delete of pre-existing keys at their current revision succeed; List(rev=0) on the new leader equals the reference state. " +
					"non-trivial = history with >=3 failed writes and >=2 keys alive at the hand-over; distinct by (engine, outcome vector)",
				Assumptions: []string{"in 7 of 8 cases the election is driven in-process in client-go's call order and the on-elected action of leader.go is applied by the harness (the real Campaign loop cannot be stopped without killing the process); every 8th case restarts the node through the REAL Campaign / on-elected callback (server.NewServer) and talks to it over gRPC",
					"lease timing is not modelled: the old leader is simply never heard from again"},
				MinConcl: pick(tier, 36, 3000)}
		},
		Name: func(c *harness.Case) string {
			if c.Index%8 == 7 {
				return "restart-through-real-campaign"
			}
			return "handover-" + c15Engines[c.Index%len(c15Engines)]
		},
		Run: func(c *harness.Case) {
			if c.Index%8 == 7 {
				runC15RealCampaign(c)
				return
			}
			runC15(c)
		},
	}
}

// elect drives one acquisition as client-go does and applies leader.go's on-elected action.
func elect(n *harness.Node, id string) (uint64, error) {
	lock := n.B.GetResourceLock()
	rec := resourcelock.LeaderElectionRecord{HolderIdentity: id, LeaseDurationSeconds: 8, AcquireTime: metav1.NewTime(time.Now()), RenewTime: metav1.NewTime(time.Now())}
	_, err := lock.Get()
	if err != nil {
		if !apierrors.IsNotFound(err) {
			return 0, err
		}
		if err = lock.Create(rec); err != nil {
			return 0, err
		}
	} else if err = lock.Update(rec); err != nil {
		return 0, err
	}
	// leader.go: getLeaderAndVersion
	infos := strings.Split(lock.Describe(), ",")
	if len(infos) != 2 {
		return 0, fmt.Errorf("lock info invalid %q", lock.Describe())
	}
	version, err := strconv.ParseUint(infos[1], 10, 64)
	if err != nil {
		return 0, err
	}
	n.B.SetCurrentRevision(version)
	n.Start = version
	return version, nil
}

func renew(n *harness.Node, id string) {
	lock := n.B.GetResourceLock()
	if _, err := lock.Get(); err == nil {
		_ = lock.Update(resourcelock.LeaderElectionRecord{HolderIdentity: id, LeaseDurationSeconds: 8, RenewTime: metav1.NewTime(time.Now())})
	}
}

func runC15(c *harness.Case) {
	var followerReads int64
	r := c.Rng
	kind := c15Engines[c.Index%len(c15Engines)]
	base := strings.TrimSuffix(kind, "-restart")
	eng, err := harness.NewEngine(base)
	if err != nil {
		c.Inconclusive(err.Error())
		return
	}
	defer func() { eng.Close() }()
	// every third case: the nodes see the store through the production storage metrics wrapper, and the engine's
	// timestamp oracle fails once during the take-over (a PD outage); the failed attempt is simply repeated
	var ow *harness.Wrap
	if c.Index%3 == 2 && !strings.HasSuffix(kind, "-restart") {
		ow = harness.NewWrap(eng.KV)
		eng.KV = harness.WithMetrics(ow, harness.NewRecMetrics(true))
	}
	a := harness.NewNode(harness.NodeOpts{KV: eng.KV, SkipInit: true, Config: backend.Config{Identity: "node-a:2380"}})
	va, err := elect(a, "node-a:2380")
	if err != nil {
		c.Inconclusive("old leader could not be elected: " + err.Error())
		return
	}
	// in fail-over cases the future leader already runs as a follower: concurrent readers keep adopting the old
	// leader's revision on it (what SyncReadRevision does) while the old leader writes
	var follower *harness.Node
	var fstop int32
	var fwg sync.WaitGroup
	// in every other round of the engine rotation the future leader reaches the engine through a connection of its own,
	// whose timestamp oracle goes away right after the node's first look at the lock and stays away until the node has
	// tried to take over (point reads, scans and commits go on working)
	var sw *harness.Wrap
	var fkv storage.KvStorage = eng.KV
	var tkv storage.KvStorage = eng.KV
	if !strings.HasSuffix(kind, "-restart") && (c.Index/len(c15Engines))%2 == 1 {
		sw = harness.NewWrap(eng.KV)
		if c.Index%3 == 0 {
			// with a third node in the case the connection (and the outage) is the third node's: the outage then lasts
			// across the whole term of the second leader, whose start revision lies above what the third node saw at
			// its first look
			tkv = sw
		} else {
			fkv = sw
		}
	}
	if !strings.HasSuffix(kind, "-restart") && c.Index%2 == 0 {
		follower = harness.NewNode(harness.NodeOpts{KV: fkv, SkipInit: true, Config: backend.Config{Identity: "node-b:2380"}})
		for g := 0; g < 8; g++ {
			fwg.Add(1)
			go func(g int) {
				defer fwg.Done()
				full := harness.Prefix + "/"
				for i := 0; atomic.LoadInt32(&fstop) == 0; i++ {
					// what SyncReadRevision does before every follower read
					follower.B.SetCurrentRevision(a.Committed())
					switch (i + g) % 16 {
					case 0:
						_, _ = follower.List(full, string(backend.PrefixEnd([]byte(full))), 0, 0)
					case 8:
						_, _ = follower.Get(full+"a", 0)
					}
					atomic.AddInt64(&followerReads, 1)
				}
			}(g)
		}
	}
	stopFollower := func() {
		atomic.StoreInt32(&fstop, 1)
		fwg.Wait()
	}
	defer stopFollower()
	s := &seqCtx{c: c, n: a, m: harness.NewModel()}
	for _, nm := range []string{"/a", "/b", "/c/d", "/e", "/f"}[:2+r.Intn(4)] {
		s.keys = append(s.keys, harness.Prefix+nm)
	}
	// standing by: in fail-over cases the future leader(s) already run and look at the lock every now and then, as
	// client-go's election loop does every retry period (they find it held and leave it alone)
	var standby, third *harness.Node
	if !strings.HasSuffix(kind, "-restart") {
		standby = follower
		if standby == nil && c.Index%4 != 1 {
			standby = harness.NewNode(harness.NodeOpts{KV: fkv, SkipInit: true, Config: backend.Config{Identity: "node-b:2380"}})
		}
		if c.Index%3 == 0 {
			third = harness.NewNode(harness.NodeOpts{KV: tkv, SkipInit: true, Config: backend.Config{Identity: "node-c:2380"}})
			defer third.Retire()
		}
	}
	look := func(n *harness.Node) {
		if n != nil {
			_, _ = n.B.GetResourceLock().Get()
			c.Stat("looks_at_the_lock_by_standing_by_nodes", 1)
			if sw != nil && sw.OracleFault == nil && (n == third || (third == nil && n == standby)) {
				sw.OracleFault = func() error { return errors.New("injected oracle outage") }
			}
		}
	}
	lookEvery, lookEvery3 := 1+r.Intn(15), 1+r.Intn(25)
	lookFrom3 := r.Intn(40)
	nOps := 5 + r.Intn(60)
	renewEvery := 1 + r.Intn(20)
	burst := 0
	for i := 0; i < nOps; i++ {
		if i%lookEvery == 0 {
			look(standby)
		}
		if i >= lookFrom3 && i%lookEvery3 == 0 {
			look(third)
		}
		var op harness.SeqOp
		if burst > 0 || r.Intn(8) == 0 {
			if burst == 0 {
				burst = 1 + r.Intn(12)
			}
			burst--
			// a failing write: create of a live key, or a stale update
			k := s.keys[r.Intn(len(s.keys))]
			if s.m.Live(k) != nil {
				op = harness.SeqOp{Kind: "create", Key: k, Val: []byte("dup")}
			} else {
				op = harness.SeqOp{Kind: "update", Key: k, Val: []byte("x"), Exp: va + 1}
				if lv := s.m.Latest(k); lv != nil {
					op.Exp = lv.Rev
				}
			}
		} else {
			op = s.genOp(r, false)
			if op.Kind == "update" && op.Exp > a.Dealt() {
				op.Exp = 0
			}
			if len(op.Val) > 32 {
				op.Val = op.Val[:32]
			}
		}
		if r.Intn(12) == 0 && len(s.keys) > 0 {
			// a guarded write whose expected revision lies far in the future (a client with a corrupt or foreign
			// revision): it is refused and must leave the revision generator where it was
			fut := harness.SeqOp{Kind: []string{"update", "delete"}[r.Intn(2)], Key: s.keys[r.Intn(len(s.keys))], Val: []byte("f"),
				Exp: a.Dealt() + uint64(1e9)<<uint(r.Intn(30))}
			out := a.Do(fut)
			s.hist = append(s.hist, fut.String()+" -> "+out.String())
			if out.Err == "" && out.Succeeded {
				c.Violatef("C15 write-with-future-expectation-succeeded", s.witness(), "%s succeeded", fut)
				return
			}
			a.WaitCommitted(a.Dealt(), 30*time.Second)
			c.Stat("refused_writes_with_a_future_expected_revision", 1)
		}
		if !s.write(op, "C15") {
			return
		}
		if i%renewEvery == renewEvery-1 {
			renew(a, "node-a:2380")
		}
	}
	if c.R.Verdict == "violated" {
		c.R.Verdict, c.R.Violations = "inconclusive", nil
		c.R.Inconclusive = "old leader's history disagreed with the reference (not this property's subject)"
		return
	}
	if follower != nil {
		// keep the old leader's revision moving quickly for a while (failing creates are cheap and consume revisions)
		if len(s.keys) > 0 && s.m.Live(s.keys[0]) == nil {
			s.write(harness.SeqOp{Kind: "create", Key: s.keys[0], Val: []byte("busy")}, "C15")
		}
		for i := 0; i < 20000; i++ {
			out := a.Do(harness.SeqOp{Kind: "create", Key: s.keys[0], Val: []byte("dup")})
			if out.Err == "" && !out.Succeeded {
				s.nFail++
			}
		}
		a.WaitCommitted(a.Dealt(), 30*time.Second)
	}
	dealtA := a.Dealt()
	stopFollower()
	if follower != nil {
		// a node that never deals keeps dealt == committed; dealt below committed means the next revisions it hands out
		// after taking over would repeat revisions the old leader has already written
		if cm, dl := follower.Committed(), follower.Dealt(); dl < cm {
			c.Violatef("C15 follower-revision-allocator-fell-behind-its-read-revision engine="+base, s.witness(), "after %d concurrent follower reads the node's next revision would be %d while it already reads at %d (old leader dealt up to %d)", atomic.LoadInt64(&followerReads), dl+1, cm, dealtA)
			return
		}
	}
	a.Retire() // the old leader is never heard from again
	// highest revision present in the store
	kvForB := eng.KV
	if strings.HasSuffix(kind, "-restart") {
		dir := eng.Dir
		_ = eng.KV.Close()
		e2, err := harness.OpenBadger(dir, true)
		if err != nil {
			c.Inconclusive("reopen failed: " + err.Error())
			return
		}
		eng = e2
		kvForB = e2.KV
	}
	dump, err := harness.Dump(kvForB, coderC.EncodeObjectKey([]byte(harness.Prefix+"/"), 0), coderC.EncodeObjectKey(backend.PrefixEnd([]byte(harness.Prefix+"/")), 0))
	if err != nil {
		c.Inconclusive("dump failed")
		return
	}
	var maxStored uint64
	for _, kv := range dump {
		_, rev, derr := coderC.Decode(kv.Key)
		if derr != nil {
			continue
		}
		if rev == 0 {
			if ir, _, perr := coder.ParseRevision(kv.Val); perr == nil && ir > maxStored {
				maxStored = ir
			}
		} else if rev > maxStored {
			maxStored = rev
		}
	}
	idB := "node-b:2380"
	if r.Intn(3) == 0 {
		idB = "node-a:2380" // the same node restarted
	}
	b := standby
	if b == nil {
		b = harness.NewNode(harness.NodeOpts{KV: kvForB, SkipInit: true, Config: backend.Config{Identity: idB}})
	} else {
		idB = "node-b:2380"
		c.Stat("handovers_to_a_node_that_stood_by", 1)
	}
	if follower != nil {
		c.Stat("handovers_to_a_node_that_served_follower_reads", 1)
		c.Stat("follower_reads_before_handover", atomic.LoadInt64(&followerReads))
	}
	defer b.Retire()
	if ow != nil {
		failAt, calls := int32(1+r.Intn(2)), int32(0)
		ow.OracleFault = func() error {
			if atomic.AddInt32(&calls, 1) == failAt {
				return errors.New("injected oracle outage")
			}
			return nil
		}
	}
	vb, err := elect(b, idB)
	if sw != nil && b == standby && third == nil {
		if err != nil && strings.Contains(err.Error(), "injected oracle outage") {
			c.Stat("election_attempts_failed_by_a_long_oracle_outage", 1)
		}
		if err != nil {
			// the outage ends; client-go tries again a retry period later
			sw.OracleFault = nil
			vb, err = elect(b, idB)
		}
		sw.OracleFault = nil
		c.Stat("takeovers_by_a_node_whose_oracle_was_away_since_its_first_look", 1)
	}
	if err != nil && ow != nil && strings.Contains(err.Error(), "injected oracle outage") {
		// the attempt failed on the outage, as it may; client-go tries again a retry period later
		c.Stat("election_attempts_failed_by_an_oracle_outage", 1)
		vb, err = elect(b, idB)
	}
	if ow != nil {
		ow.OracleFault = nil
		c.Stat("takeovers_with_an_oracle_outage", 1)
	}
	if err != nil {
		c.Violatef("C15 new-leader-cannot-be-elected engine="+base, s.witness(), "new leader could not take the lock: %v", err)
		return
	}
	wit := func() interface{} {
		w := s.witness().(map[string]interface{})
		w["old_leader_start_revision"], w["old_leader_last_dealt"], w["max_stored_revision"], w["new_leader_start_revision"] = va, dealtA, maxStored, vb
		return w
	}
	c.Stat("revisions_consumed_by_old_leader", int64(dealtA-va))
	if vb <= maxStored {
		sig := "C15 new-leader-starts-at-or-below-stored-revisions engine=" + base
		if base == "badger" {
			sig += " cause=engine-timestamp-counts-commits-not-revisions"
		}
		c.Violatef(sig, wit(), "the new leader initialised its revision to %d (engine timestamp from the lock) but the store already holds revision %d: the old leader started at %d and handed out %d revisions (%d failed writes consumed revisions without an engine commit)", vb, maxStored, va, dealtA-va, s.nFail)
	} else {
		// first revisions handed out, guarded writes on existing keys, and visibility
		first, err := b.Create(harness.Prefix+"/zz-first", []byte("n"))
		if err != nil || !first.Succeeded || first.Header.GetRevision() <= maxStored {
			c.Violatef("C15 first-revision-not-above-stored engine="+base, wit(), "first write on the new leader: %v %v (max stored %d)", first, err, maxStored)
			return
		}
		b.WaitCommitted(first.Header.GetRevision(), 30*time.Second)
		s.m.Put(harness.Prefix+"/zz-first", first.Header.GetRevision(), []byte("n"))
		full := harness.Prefix + "/"
		l, err := b.List(full, string(backend.PrefixEnd([]byte(full))), 0, 0)
		if err != nil {
			c.Violatef("C15 list-error-on-new-leader engine="+base, wit(), "List(rev=0) on the new leader: %v", err)
			return
		}
		want := s.m.Snapshot(full, string(backend.PrefixEnd([]byte(full))), ^uint64(0))
		if !sameKVs(want, l.Kvs) {
			c.Violatef("C15 earlier-writes-not-visible-on-new-leader engine="+base, wit(), "List(rev=0) on the new leader = %s; the old leader's acknowledged state is %s", kvStr(l.Kvs), mkvStr(want))
			return
		}
		for _, k := range s.keys {
			live := s.m.Live(k)
			if live == nil {
				continue
			}
			var op harness.SeqOp
			if r.Intn(2) == 0 {
				op = harness.SeqOp{Kind: "update", Key: k, Val: []byte("by-new-leader"), Exp: live.Rev}
			} else {
				op = harness.SeqOp{Kind: "delete", Key: k, Exp: live.Rev}
			}
			out, mis := b.ApplyChecked(s.m, op)
			if mis != "" {
				c.Violatef("C15 guarded-write-on-existing-key-fails-on-new-leader engine="+base, wit(), "%s (answer %s)", mis, out)
				return
			}
			if out.Rev <= maxStored {
				c.Violatef("C15 first-revision-not-above-stored engine="+base, wit(), "%s got revision %d <= max stored %d", op, out.Rev, maxStored)
				return
			}
		}
	}
	if third != nil && c.R.Verdict == "held" && vb > maxStored {
		// a second fail-over: the new leader works for a while (failed writes included), the third node - standing by
		// since some point of the first leader's term - keeps looking at the lock, then takes over
		sb := &seqCtx{c: c, n: b, m: s.m, keys: s.keys}
		for i := 0; i < 5+r.Intn(40); i++ {
			op := sb.genOp(r, false)
			if op.Kind == "update" && op.Exp > b.Dealt() {
				op.Exp = 0
			}
			if len(op.Val) > 32 {
				op.Val = op.Val[:32]
			}
			if r.Intn(4) == 0 {
				op = harness.SeqOp{Kind: "create", Key: harness.Prefix + "/zz-first", Val: []byte("dup")} // fails, consumes a revision
			}
			if !sb.write(op, "C15") {
				return
			}
			if i%lookEvery3 == 0 {
				look(third)
			}
			if i%renewEvery == renewEvery-1 {
				renew(b, idB)
			}
		}
		if c.R.Verdict == "violated" {
			c.R.Verdict, c.R.Violations = "inconclusive", nil
			c.R.Inconclusive = "second leader's history disagreed with the reference (not this property's subject)"
			return
		}
		dealtB := b.Dealt()
		b.WaitCommitted(dealtB, 30*time.Second)
		b.Retire()
		vc, err := elect(third, "node-c:2380")
		if sw != nil {
			if err != nil && strings.Contains(err.Error(), "injected oracle outage") {
				c.Stat("election_attempts_failed_by_a_long_oracle_outage", 1)
				sw.OracleFault = nil
				vc, err = elect(third, "node-c:2380")
			}
			sw.OracleFault = nil
			c.Stat("takeovers_by_a_node_whose_oracle_was_away_since_its_first_look", 1)
		}
		if err != nil {
			c.Violatef("C15 new-leader-cannot-be-elected engine="+base+" hop=second", wit(), "third node could not take the lock: %v", err)
			return
		}
		c.Stat("second_handovers", 1)
		if vc <= dealtB {
			// every revision up to dealtB may be present in the store (successful writes) or was at least handed out
			maxNow := uint64(0)
			for _, vs := range s.m.Keys {
				for _, v := range vs {
					if v.Rev > maxNow {
						maxNow = v.Rev
					}
				}
			}
			if vc <= maxNow {
				w := wit().(map[string]interface{})
				w["second_leader_last_dealt"], w["third_leader_start_revision"], w["max_stored_revision_now"] = dealtB, vc, maxNow
				c.Violatef("C15 new-leader-starts-at-or-below-stored-revisions engine="+base+" hop=second", w, "after a second fail-over the new leader initialised its revision to %d but the store already holds revision %d (second leader started at %d and dealt up to %d)", vc, maxNow, vb, dealtB)
				return
			}
		}
		full := harness.Prefix + "/"
		first, err := third.Create(harness.Prefix+"/zz-second", []byte("n"))
		if err != nil || !first.Succeeded {
			c.Violatef("C15 first-revision-not-above-stored engine="+base+" hop=second", wit(), "first write after the second fail-over: %v %v", first, err)
			return
		}
		third.WaitCommitted(first.Header.GetRevision(), 30*time.Second)
		s.m.Put(harness.Prefix+"/zz-second", first.Header.GetRevision(), []byte("n"))
		l, err := third.List(full, string(backend.PrefixEnd([]byte(full))), 0, 0)
		if err != nil {
			c.Violatef("C15 list-error-on-new-leader engine="+base+" hop=second", wit(), "List(rev=0): %v", err)
			return
		}
		if want := s.m.Snapshot(full, string(backend.PrefixEnd([]byte(full))), ^uint64(0)); !sameKVs(want, l.Kvs) {
			c.Violatef("C15 earlier-writes-not-visible-on-new-leader engine="+base+" hop=second", wit(), "List(rev=0) after the second fail-over = %s; acknowledged state is %s", kvStr(l.Kvs), mkvStr(want))
			return
		}
		for _, k := range s.keys {
			if live := s.m.Live(k); live != nil {
				op := harness.SeqOp{Kind: "update", Key: k, Val: []byte("by-third-leader"), Exp: live.Rev}
				if out, mis := third.ApplyChecked(s.m, op); mis != "" {
					c.Violatef("C15 guarded-write-on-existing-key-fails-on-new-leader engine="+base+" hop=second", wit(), "%s (answer %s)", mis, out)
					return
				}
			}
		}
	}
	alive := 0
	for _, k := range s.keys {
		if s.m.Live(k) != nil {
			alive++
		}
	}
	c.Stat("failed_writes_by_old_leader", int64(s.nFail))
	c.AddSet("engines", kind)
	c.Fingerprint(s.nFail >= 3 && alive >= 2, kind, string(s.outcomes), idB)
	if c.Index < 6 {
		c.R.Sample = map[string]interface{}{"engine": kind, "old_start": va, "old_dealt": dealtA, "max_stored": maxStored, "new_start": vb, "failed_writes": s.nFail, "ops": nOps}
	}
	_ = bytes.Equal
}

// runC15RealCampaign: the take-over goes through the REAL election loop and on-elected callback of
// pkg/server/service/leader (server.NewServer starts Campaign); requests go through the node's gRPC services,
// which gate on IsLeader(). A writer fires as soon as the node accepts writes. The metrics sink is slow for the
// gauge emitted inside the callback (a sink is allowed to be slow), which stretches the callback.
func runC15RealCampaign(c *harness.Case) {
	r := c.Rng
	kind := []string{"memkv", "badger", "tikv"}[r.Intn(3)]
	eng, err := harness.NewEngine(kind)
	if err != nil {
		c.Inconclusive(err.Error())
		return
	}
	// (the engine is never closed: the real election loop started below cannot be stopped and keeps renewing on it;
	// closing Badger or the TiKV mock under it would end the worker from inside the engine)
	id := "node-a:2380"
	a := harness.NewNode(harness.NodeOpts{KV: eng.KV, SkipInit: true, Config: backend.Config{Identity: id}})
	va, err := elect(a, id)
	if err != nil {
		c.Inconclusive("old leader could not be elected: " + err.Error())
		return
	}
	s := &seqCtx{c: c, n: a, m: harness.NewModel()}
	for _, nm := range []string{"/a", "/b", "/c/d"} {
		s.keys = append(s.keys, harness.Prefix+nm)
	}
	for i := 0; i < 10+r.Intn(30); i++ {
		op := s.genOp(r, false)
		if op.Kind == "update" && op.Exp > a.Dealt() {
			op.Exp = 0
		}
		if len(op.Val) > 32 {
			op.Val = op.Val[:32]
		}
		if !s.write(op, "C15") {
			return
		}
	}
	if c.R.Verdict == "violated" {
		c.R.Verdict, c.R.Violations = "inconclusive", nil
		c.R.Inconclusive = "old leader's history disagreed with the reference"
		return
	}
	maxStored := a.Dealt()
	released := c.Index%16 == 15
	if released {
		// the old leader gives the lock back before it stops, as client-go's release() does on a clean shutdown
		// (ReleaseOnCancel): the record then names no holder
		lock := a.B.GetResourceLock()
		if _, gerr := lock.Get(); gerr == nil {
			if rerr := lock.Update(resourcelock.LeaderElectionRecord{LeaseDurationSeconds: 1, RenewTime: metav1.NewTime(time.Now())}); rerr == nil {
				c.Stat("takeovers_of_a_released_lock", 1)
			}
		}
	}
	a.Retire()
	// the same node restarts (same identity: client-go re-acquires its own lease at once)
	rm := harness.NewRecMetrics(false)
	rm.Slow = map[string]time.Duration{"leader.election.initial.version": 30 * time.Millisecond, "leader.election.success": 5 * time.Millisecond}
	var bkv storage.KvStorage = eng.KV
	if released {
		// point reads of the lock record take 40 ms (a remote store): the election loop's next look at the record comes
		// back only after the on-elected callback has read the lock's description
		rm.Slow = map[string]time.Duration{"leader.election.initial.version": 30 * time.Millisecond}
		sw := harness.NewWrap(eng.KV)
		lockKey := []byte(harness.Prefix + "/election")
		sw.AfterGet = func(key, val []byte, err error) {
			if bytes.Equal(key, lockKey) {
				time.Sleep(40 * time.Millisecond)
			}
		}
		bkv = sw
	}
	b := harness.NewNode(harness.NodeOpts{KV: bkv, SkipInit: true, Metrics: rm, Config: backend.Config{Identity: id}})
	defer b.Retire()
	srv := server.NewServer(b.B, rm, server.Config{}) // starts the real Campaign
	g, gerr := newGRPCNodeFor(srv.RegisterClient, rm)
	if gerr != nil {
		c.Inconclusive("grpc: " + gerr.Error())
		return
	}
	defer g.close()
	// writer: as soon as the node accepts a write, the revision it hands out must exceed everything stored
	deadline := time.Now().Add(40 * time.Second)
	var first *pb.CreateResponse
	attempts := 0
	for time.Now().Before(deadline) {
		attempts++
		resp, err := g.brainGRPC.Create(context.Background(), &pb.CreateRequest{Key: []byte(harness.Prefix + "/zz-first"), Value: []byte("n")})
		if err == nil {
			first = resp
			break
		}
		if status.Code(err) != codes.Unavailable {
			c.Violatef("C15 first-write-after-takeover-failed engine="+kind, s.witness(), "the first write accepted by the restarted node failed: %v (old leader dealt up to %d)", err, maxStored)
			return
		}
		time.Sleep(200 * time.Microsecond)
	}
	if first == nil {
		c.Inconclusive("the restarted node did not become leader within the watchdog")
		return
	}
	wit := func() interface{} {
		w := s.witness().(map[string]interface{})
		w["old_leader_start_revision"], w["old_leader_last_dealt"], w["first_response"] = va, maxStored, first.String()
		return w
	}
	if !first.Succeeded || first.Header.GetRevision() <= maxStored {
		c.Violatef("C15 first-revision-not-above-stored engine="+kind+" path=real-campaign", wit(), "the first write the restarted node accepted (after %d refused attempts) was stamped revision %d; the store already holds revision %d", attempts, first.Header.GetRevision(), maxStored)
		return
	}
	// guarded writes on pre-existing keys must work
	for _, k := range s.keys {
		if live := s.m.Live(k); live != nil {
			resp, err := g.brainGRPC.Update(context.Background(), &pb.UpdateRequest{Kv: &pb.KeyValue{Key: []byte(k), Value: []byte("after-restart"), Revision: live.Rev}})
			if err != nil || !resp.Succeeded {
				c.Violatef("C15 guarded-write-on-existing-key-fails-on-new-leader engine="+kind+" path=real-campaign", wit(), "update(%q, exp=%d) on the restarted node: %v %v", k, live.Rev, resp, err)
				return
			}
		}
	}
	c.Stat("real_campaign_takeovers", 1)
	c.Stat("writes_refused_before_leadership", int64(attempts-1))
	c.AddSet("engines", "real-campaign-"+kind)
	c.Fingerprint(attempts > 1, "real-campaign", kind, c.Index)
	if c.Index < 12 {
		c.R.Sample = map[string]interface{}{"engine": kind, "path": "real campaign", "old_dealt": maxStored, "first_revision": first.Header.GetRevision(), "refused_attempts": attempts - 1}
	}
}
