package props

import (
	"bytes"
	"errors"
	"fmt"
	"math/rand"
	"sort"
	"strings"
	"sync"
	"sync/atomic"
	"time"

	proto "github.com/kubewharf/kubebrain-client/api/v2rpc"

	"github.com/kubewharf/kubebrain/pkg/backend"
	"github.com/kubewharf/kubebrain/pkg/backend/coder"
	"github.com/kubewharf/kubebrain/pkg/storage"

	"verif/internal/harness"
)

// C09 — indeterminate storage outcomes are repaired, never mis-reported.
// Fault enumeration over every write batch of a generated history, both variants (applied / not
// applied), plus second-order faults on the repair write itself.

var c09Engines = []string{"memkv", "memkv", "tikv", "memkv", "badger", "memkv"}

const c09Chunks = 4

var c09Once sync.Once

func init() {
	Registry["C09"] = &Prop{
		Plan: func(tier string) Plan {
			return Plan{Level: "fault_enumeration", NCases: pick(tier, 8*c09Chunks, 600*c09Chunks), Batch: 1, CaseTimeout: 600,
				Rule: "histories are PRNG sequential scripts of 10-30 writes over 3-5 keys, rebuilt on a fresh engine for every execution; for EVERY write batch position p=1..D of the history (split over 4 cases per history) the engine's answer to that batch is replaced by storage.NewErrUncertainResult in both variants (batch applied / not applied); " +
					"for the applied variant three more executions also fault the repair write of the retry loop (unknown+applied / unknown+not applied / definite storage error). The script then continues with writes to the same and other keys (expectations refreshed by Get, as a client would). Every 4th history is instead run concurrently: 3 clients, 4% of the batches answered unknown and late (both variants), the next batch that reaches the engine meanwhile answered unknown at once, so that a younger unknown outcome is answered before an older one, a compactor requesting Compact(max) throughout. Retry intervals 30ms/10ms via the verif hook. " +
					"oracle: faulted call answers an error; later writes flow and become readable; Compact while unresolved stays below the unresolved revision; after the retry queue is empty and the sequencer quiescent: Get/List == highest landed write per key in the storage-boundary log, acknowledged successes landed, failed ones did not, and pre-fault List + delivered watch events == final List. " +
					"evaluations = executions; non-trivial+distinct = executions whose injected unknown outcome fired, identified by (history, position, variant)",
				Assumptions: []string{"unknown outcomes are injected by a wrapper at the storage.KvStorage boundary (real TiKV timeouts are not reachable)",
					"quiescence is decided on retry-queue length and sequencer state read through verif hooks, not on elapsed time"},
				MinConcl: pick(tier, 24, 2000)}
		},
		Name: func(c *harness.Case) string {
			h := c.Index / c09Chunks
			return fmt.Sprintf("uncertain-h%d-chunk%d-%s", h, c.Index%c09Chunks, c09Engines[h%len(c09Engines)])
		},
		Run: runC09,
	}
}

type landed struct {
	raw string
	rev uint64
	val []byte
}

type c09Exec struct {
	c      *harness.Case
	kind   string
	eng    *harness.Engine
	w      *harness.Wrap
	n      *harness.Node
	keys   []string
	mu     sync.Mutex
	batchN int // backend write batches seen
	// fault plan
	faultAt      int // 1-based batch position, 0 = dry run
	applied      bool
	second       string // "", "applied", "notapplied"
	fired        bool
	firedRev     uint64
	firedKey     string
	secondFired  bool
	landedLog    []landed
	hist         []string
	unresolvedAt uint64
}

func (e *c09Exec) decide(b *harness.BatchInfo) harness.Decision {
	raw, rev, _, ok := b.Write()
	if !ok {
		return harness.Pass
	}
	e.mu.Lock()
	defer e.mu.Unlock()
	e.batchN++
	if e.faultAt != 0 && e.batchN == e.faultAt && !e.fired {
		e.fired, e.firedRev, e.firedKey = true, rev, string(raw)
		if e.applied {
			return harness.UncertainApplied
		}
		return harness.UncertainNotApplied
	}
	// the repair write: CAS of the index from the faulted revision, issued by the retry loop
	if e.fired && e.second != "" && !e.secondFired && string(raw) == e.firedKey && b.Ops[0].Kind == "cas" && len(b.Ops[0].Old) >= 8 && u64(b.Ops[0].Old[:8]) == e.firedRev {
		e.secondFired = true
		switch e.second {
		case "applied":
			return harness.UncertainApplied
		case "definite":
			return harness.FailDefinite
		}
		return harness.UncertainNotApplied
	}
	return harness.Pass
}

func (e *c09Exec) after(b *harness.BatchInfo, ret error) {
	raw, rev, val, ok := b.Write()
	if !ok || !b.Applied {
		return
	}
	e.mu.Lock()
	e.landedLog = append(e.landedLog, landed{string(raw), rev, val})
	e.mu.Unlock()
}

func newC09Exec(c *harness.Case, kind string, keys []string) *c09Exec {
	eng, err := harness.NewEngine(kind)
	if err != nil {
		c.Inconclusive(err.Error())
		return nil
	}
	e := &c09Exec{c: c, kind: kind, eng: eng, keys: keys}
	e.w = harness.NewWrap(eng.KV)
	e.w.Decide = e.decide
	e.w.AfterCommit = e.after
	e.n = harness.NewNode(harness.NodeOpts{KV: e.w, TrackNotify: true, Config: backend.Config{WatchCacheSize: 4096}})
	return e
}

func (e *c09Exec) close() {
	e.n.Retire()
	if e.n.RetryQueueLen() > 0 || e.n.Committed() != e.n.Dealt() {
		return // the retry loop may still touch the engine: leave it open rather than pull it from under the backend
	}
	e.eng.Close()
}

// quiesce waits until the retry queue is empty and every dealt revision has been processed.
func (e *c09Exec) quiesce() bool {
	deadline := time.Now().Add(15 * time.Second)
	for {
		q1 := e.n.RetryQueueLen()
		committed, dealt := e.n.Committed(), e.n.Dealt()
		q2 := e.n.RetryQueueLen()
		if q1 == 0 && q2 == 0 && committed == dealt {
			return true
		}
		if time.Now().After(deadline) {
			return false
		}
		time.Sleep(2 * time.Millisecond)
	}
}

// c09Script is the pre-generated part of a history: the operation kinds and keys; expectations are
// filled in at run time from what the client can read.
type c09Step struct {
	kind  string
	key   int
	stale bool
}

func genC09Script(r *rand.Rand) (steps []c09Step, nKeys int) {
	nKeys = 3 + r.Intn(3)
	n := 10 + r.Intn(21)
	for i := 0; i < n; i++ {
		st := c09Step{key: r.Intn(nKeys)}
		switch x := r.Intn(10); {
		case x < 3:
			st.kind = "create"
		case x < 7:
			st.kind = "update"
		default:
			st.kind = "delete"
		}
		st.stale = r.Intn(8) == 0
		steps = append(steps, st)
	}
	return
}

func (e *c09Exec) wit() interface{} {
	e.mu.Lock()
	defer e.mu.Unlock()
	var ll []string
	for _, l := range e.landedLog {
		ll = append(ll, fmt.Sprintf("%s@%d=%q", l.raw, l.rev, trimB(l.val)))
	}
	return map[string]interface{}{"engine": e.kind, "fault_at_batch": e.faultAt, "applied": e.applied, "second_order": e.second,
		"faulted_key": e.firedKey, "faulted_revision": e.firedRev, "history": e.hist, "landed_at_storage_boundary": ll}
}

// run executes the script with the configured fault; returns false if the run is unusable.
func (e *c09Exec) run(steps []c09Step) {
	c := e.c
	n := e.n
	full := harness.Prefix + "/"
	fullEnd := string(backend.PrefixEnd([]byte(full)))
	// pre-fault snapshot + watcher (sequential: nothing in flight)
	l0, err := n.List(full, fullEnd, 0, 0)
	if err != nil {
		c.Inconclusive("initial list failed: " + err.Error())
		return
	}
	wch, err := n.B.Watch(harness.Ctx, full, 0)
	if err != nil {
		c.Inconclusive("watch refused: " + err.Error())
		return
	}
	type ack struct {
		key  string
		rev  uint64
		kind string
		val  []byte
	}
	var acks []ack
	var failedRevs []ack
	faultSeen := false
	for i, st := range steps {
		key := e.keys[st.key]
		// the client learns the current state by reading (it cannot know the outcome of an errored write)
		g, gerr := n.Get(key, 0)
		if gerr != nil {
			c.Violatef("C09 read-failed-while-unresolved", e.wit(), "Get(%q) error %v", key, gerr)
			return
		}
		var op harness.SeqOp
		val := []byte(fmt.Sprintf("s%d", i))
		switch st.kind {
		case "create":
			op = harness.SeqOp{Kind: "create", Key: key, Val: val}
		case "update":
			op = harness.SeqOp{Kind: "update", Key: key, Val: val}
			if g.Kv != nil {
				op.Exp = g.Kv.Revision
			}
			if st.stale && op.Exp > 1 {
				op.Exp--
			}
		case "delete":
			op = harness.SeqOp{Kind: "delete", Key: key}
			if g.Kv != nil && !st.stale {
				op.Exp = g.Kv.Revision
			}
		}
		e.mu.Lock()
		firedBefore := e.fired
		e.mu.Unlock()
		if e.second != "" && firedBefore && key == e.firedKey {
			continue // second-order executions leave the faulted key alone until the outcome is resolved
		}
		out := n.Do(op)
		e.mu.Lock()
		firedNow := e.fired && !firedBefore
		e.hist = append(e.hist, fmt.Sprintf("%s -> %s", op, out))
		e.mu.Unlock()
		if firedNow {
			faultSeen = true
			// (1) the client must get an error: never a success, never a definite conflict
			if out.Err == "" {
				sig := "C09 unknown-outcome-reported-as-success"
				if !out.Succeeded {
					sig = "C09 unknown-outcome-reported-as-definite-conflict"
				}
				c.Violatef(sig, e.wit(), "the engine answered the commit of %s with 'outcome unknown' (applied=%v); the client was answered %s", op, e.applied, out)
				return
			}
			// (3) compaction must stay below the unresolved revision while it is unresolved
			if e.n.RetryQueueLen() > 0 || !n.WaitCommitted(e.firedRev, 10*time.Second) {
				// fallthrough: sample below
			}
			n.WaitCommitted(e.firedRev, 30*time.Second)
			if e.n.RetryQueueLen() > 0 {
				resp, cerr := n.B.Compact(harness.Ctx, 0)
				stillUnresolved := e.n.RetryQueueLen() > 0
				if cerr == nil && stillUnresolved && resp.Header.GetRevision() >= e.firedRev {
					c.Violatef("C09 compaction-advanced-past-unresolved-revision", e.wit(), "Compact(max) answered effective revision %d while revision %d was unresolved", resp.Header.GetRevision(), e.firedRev)
					return
				}
				c.Stat("compactions_while_unresolved", 1)
			}
			continue
		}
		if out.Err != "" {
			// a definite error: the write must not have landed (checked against the boundary log below)
			continue
		}
		if !n.WaitCommitted(out.Rev, 8*time.Second) {
			// (2) later requests keep flowing
			if faultSeen {
				missing, _, _, _ := n.Conservation()
				if len(missing) > 0 {
					c.Violatef("C09 later-requests-stuck", e.wit(), "after the unknown outcome, acknowledged write at revision %d never became readable: revisions %v unresolved", out.Rev, firstN(missing, 4))
					return
				}
			}
			c.Inconclusive("watchdog waiting for an acknowledged write to become readable")
			return
		}
		if out.Succeeded {
			acks = append(acks, ack{key, out.Rev, op.Kind, op.Val})
		} else {
			failedRevs = append(failedRevs, ack{key, out.Rev, op.Kind, op.Val})
		}
	}
	if e.faultAt != 0 && !faultSeen {
		return // position beyond this execution's batches (the script is state dependent); nothing injected
	}
	if !e.quiesce() {
		missing, _, _, _ := n.Conservation()
		if len(missing) > 0 {
			c.Violatef("C09 later-requests-stuck", e.wit(), "revisions %v were never resolved after the unknown outcome", firstN(missing, 4))
		} else {
			c.Inconclusive(fmt.Sprintf("watchdog: retry queue (%d) did not drain / sequencer not quiescent", e.n.RetryQueueLen()))
		}
		return
	}
	// sentinel closes the event window
	sent, serr := n.Create(harness.Prefix+"/zz-sentinel", []byte("s"))
	if serr != nil || !sent.Succeeded {
		c.Violatef("C09 later-requests-stuck", e.wit(), "sentinel create after quiescence failed: %v %v", sent, serr)
		return
	}
	var events []*proto.Event
	deadline := time.After(60 * time.Second)
	for done := false; !done; {
		select {
		case batch, ok := <-wch:
			if !ok {
				c.Violatef("C09 watch-closed", e.wit(), "the watch stream was closed")
				return
			}
			for _, ev := range batch {
				if string(ev.Kv.Key) == harness.Prefix+"/zz-sentinel" {
					done = true
					break
				}
				events = append(events, ev)
			}
		case <-deadline:
			c.Inconclusive("watchdog waiting for the sentinel event")
			return
		}
	}
	// ground truth: highest landed write per key
	e.mu.Lock()
	truth := map[string]landed{}
	landedRevs := map[uint64]landed{}
	for _, l := range e.landedLog {
		landedRevs[l.rev] = l
		if t, ok := truth[l.raw]; !ok || l.rev > t.rev {
			truth[l.raw] = l
		}
	}
	e.mu.Unlock()
	final, err := n.List(full, fullEnd, 0, 0)
	if err != nil {
		c.Violatef("C09 final-list-error", e.wit(), "final List: %v", err)
		return
	}
	finalMap := map[string]*proto.KeyValue{}
	for _, kv := range final.Kvs {
		finalMap[string(kv.Key)] = kv
	}
	for _, key := range e.keys {
		t, has := truth[key]
		g, _ := n.Get(key, 0)
		fk := finalMap[key]
		wantLive := has && !bytes.Equal(t.val, []byte("tombstone"))
		if wantLive {
			if fk == nil || fk.Revision != t.rev || !bytes.Equal(fk.Value, t.val) || g.GetKv() == nil || g.Kv.Revision != t.rev {
				c.Violatef("C09 store-did-not-converge", e.wit(), "key %q: engine's newest landed write is (%q,%d) but List/Get answer %v / %v", key, t.val, t.rev, fk, g.GetKv())
				return
			}
		} else if fk != nil || g.GetKv() != nil {
			c.Violatef("C09 store-did-not-converge", e.wit(), "key %q: engine's newest landed write is a deletion/absent but List/Get answer %v / %v", key, fk, g.GetKv())
			return
		}
	}
	// acknowledged writes are durable; failed ones left nothing
	for _, a := range acks {
		l, ok := landedRevs[a.rev]
		if !ok || l.raw != a.key {
			c.Violatef("C09 acknowledged-write-not-durable", e.wit(), "%s of %q acknowledged at revision %d did not land in the engine", a.kind, a.key, a.rev)
			return
		}
	}
	for _, fr := range failedRevs {
		// the revision in a failed answer is not always the write's own: a failed compare names the current key-value,
		// whose revision may be the one under which the repair of an unknown outcome has just re-written the key. The
		// record counts as the failed write's only if it is what that write would have stored (values are unique per write).
		l, ok := landedRevs[fr.rev]
		if !ok || l.raw != fr.key {
			continue
		}
		isTomb := bytes.Equal(l.val, []byte("tombstone"))
		if (fr.kind == "delete" && isTomb) || (fr.kind != "delete" && bytes.Equal(l.val, fr.val)) {
			c.Violatef("C09 failed-write-landed", e.wit(), "a %s answered with a failed condition at revision %d landed in the engine (key %q, record %q)", fr.kind, fr.rev, l.raw, l.val)
			return
		}
	}
	// every delivered event must carry what the engine holds: PUT/CREATE the landed value at that revision, DELETE the
	// value and revision of the version the deletion replaced (also for events published by the repair of an unknown outcome)
	byKey := map[string][]landed{}
	e.mu.Lock()
	for _, l := range e.landedLog {
		byKey[l.raw] = append(byKey[l.raw], l)
	}
	e.mu.Unlock()
	for k := range byKey {
		sort.Slice(byKey[k], func(i, j int) bool { return byKey[k][i].rev < byKey[k][j].rev })
	}
	for _, ev := range events {
		k := string(ev.Kv.Key)
		idx := -1
		for i, l := range byKey[k] {
			if l.rev == ev.Revision {
				idx = i
			}
		}
		if idx < 0 {
			c.Violatef("C09 event-for-a-write-that-did-not-land", e.wit(), "event %s names revision %d which no landed write of that key has", evStr(ev), ev.Revision)
			return
		}
		l := byKey[k][idx]
		if ev.Type == proto.Event_DELETE {
			// previous live version: the nearest earlier landed write that is not a deletion mark (repairs re-write the mark)
			var prev *landed
			for i := idx - 1; i >= 0; i-- {
				if !bytes.Equal(byKey[k][i].val, []byte("tombstone")) {
					prev = &byKey[k][i]
					break
				}
			}
			if prev != nil && (!bytes.Equal(ev.Kv.Value, prev.val) || ev.Kv.Revision != prev.rev) {
				sig := "C09 delete-event-carries-wrong-previous-kv"
				if e.fired && k == e.firedKey {
					sig += " event-published-by-repair"
				}
				c.Violatef(sig, e.wit(), "event %s: the deleted version was (%q,%d)", evStr(ev), trimB(prev.val), prev.rev)
				return
			}
		} else if !bytes.Equal(ev.Kv.Value, l.val) || ev.Kv.Revision != ev.Revision {
			c.Violatef("C09 put-event-carries-wrong-kv", e.wit(), "event %s: the engine holds %q at revision %d", evStr(ev), trimB(l.val), l.rev)
			return
		}
	}
	// replaying the delivered events over the earlier snapshot yields the final state
	state := map[string]*proto.KeyValue{}
	for _, kv := range l0.Kvs {
		state[string(kv.Key)] = kv
	}
	var lastRev uint64
	var evs []string
	for _, ev := range events {
		evs = append(evs, fmt.Sprintf("%s %q rev=%d", ev.Type, ev.Kv.Key, ev.Revision))
		if ev.Revision <= lastRev {
			c.Violatef("C09 events-out-of-order", e.wit(), "event revisions not increasing: %v", evs)
			return
		}
		lastRev = ev.Revision
		if ev.Type == proto.Event_DELETE {
			delete(state, string(ev.Kv.Key))
		} else {
			state[string(ev.Kv.Key)] = &proto.KeyValue{Key: ev.Kv.Key, Value: ev.Kv.Value, Revision: ev.Revision}
		}
	}
	delete(finalMap, harness.Prefix+"/zz-sentinel")
	var diffs []string
	for k, kv := range finalMap {
		s, ok := state[k]
		if !ok || s.Revision != kv.Revision || !bytes.Equal(s.Value, kv.Value) {
			diffs = append(diffs, fmt.Sprintf("%q: store has (%q,%d), replay has %v", k, kv.Value, kv.Revision, s))
		}
	}
	for k, s := range state {
		if _, ok := finalMap[k]; !ok {
			diffs = append(diffs, fmt.Sprintf("%q: replay has (%q,%d), store has nothing", k, s.Value, s.Revision))
		}
	}
	if len(diffs) > 0 {
		sort.Strings(diffs)
		sig := "C09 watch-stream-did-not-converge"
		switch e.second {
		case "notapplied":
			sig += " second-order=repair-write-unknown-not-applied"
		case "definite":
			sig += " second-order=repair-write-storage-error"
		}
		w := e.wit().(map[string]interface{})
		w["delivered_events"] = evs
		c.Violatef(sig, w, "pre-fault List + delivered events != final List: %v (delivered events: %v)", diffs, evs)
		return
	}
	c.Stat("events_replayed", int64(len(events)))
}

func runC09(c *harness.Case) {
	c09Once.Do(func() { backend.VerifSetRetryIntervals(30*time.Millisecond, 10*time.Millisecond) })
	hIdx := c.Index / c09Chunks
	chunk := c.Index % c09Chunks
	kind := c09Engines[hIdx%len(c09Engines)]
	hr := harness.NewCase("C09-history", c.Tier, c.Seed, hIdx).Rng
	steps, nKeys := genC09Script(hr)
	var keys []string
	for i := 0; i < nKeys; i++ {
		keys = append(keys, fmt.Sprintf("%s/u%d", harness.Prefix, i))
	}
	c.AddSet("engines", kind)
	if hIdx%4 == 3 {
		// every 4th history is instead a concurrent run (one case per history)
		if chunk == 0 {
			for rep := 0; rep < 6 && c.R.Verdict == "held"; rep++ {
				runC09Concurrent(c, kind)
			}
		}
		return
	}
	// dry run: learn D (number of write batches) and validate the machinery without faults
	dry := newC09Exec(c, kind, keys)
	if dry == nil {
		return
	}
	dry.run(steps)
	D := dry.batchN
	dry.close()
	if c.R.Verdict != "held" {
		return
	}
	if chunk == 0 {
		c.AddExecution(fmt.Sprintf("h%d/clean", hIdx))
	}
	c.Stat("write_batches_in_history", int64(D))
	type variant struct {
		applied bool
		second  string
	}
	variants := []variant{{false, ""}, {true, ""}, {true, "applied"}, {true, "notapplied"}, {true, "definite"}}
	for pos := 1; pos <= D; pos++ {
		if pos%c09Chunks != chunk {
			continue
		}
		for _, v := range variants {
			e := newC09Exec(c, kind, keys)
			if e == nil {
				return
			}
			e.faultAt, e.applied, e.second = pos, v.applied, v.second
			e.run(steps)
			fp := ""
			if e.fired {
				fp = fmt.Sprintf("h%d/p%d/applied=%v/second=%s", hIdx, pos, v.applied, v.second)
				c.Stat("unknown_outcomes_injected", 1)
				if e.secondFired {
					c.Stat("second_order_faults_fired", 1)
				}
			}
			c.AddExecution(fp)
			e.close()
			if c.R.Verdict == "inconclusive" {
				return
			}
			stuck := false
			for _, v := range c.R.Violations {
				if strings.HasPrefix(v.Sig, "C09 later-requests-stuck") {
					stuck = true
				}
			}
			if stuck {
				return // every further execution would wait for its watchdog too; the verdict is in
			}
		}
	}
	if c.Index < c09Chunks {
		var s []string
		for _, st := range steps {
			s = append(s, fmt.Sprintf("%s(u%d,stale=%v)", st.kind, st.key, st.stale))
		}
		c.R.Sample = map[string]interface{}{"engine": kind, "script": s, "write_batches_D": D, "chunk": chunk}
	}
}

var _ = errors.New
var _ = coder.ParseRevision
var _ storage.KvStorage

// runC09Concurrent: several clients, unknown outcomes injected on a fraction of the write batches (both variants),
// commits delayed so that answers arrive out of revision order, and a compactor requesting Compact(max) all the
// time. After hook-observed quiescence the store and the watch stream must have converged to the engine's log.
func runC09Concurrent(c *harness.Case, kind string) {
	r := c.Rng
	eng, err := harness.NewEngine(kind)
	if err != nil {
		c.Inconclusive(err.Error())
		return
	}
	keys := []string{harness.Prefix + "/u0", harness.Prefix + "/u1", harness.Prefix + "/u2", harness.Prefix + "/u3", harness.Prefix + "/u4"}
	e := &c09Exec{c: c, kind: kind, eng: eng, keys: keys}
	e.w = harness.NewWrap(eng.KV)
	seed := r.Int63()
	// repairs are not attempted before retryIv after the write was queued: until then the revision is unresolved
	const retryIv = 400 * time.Millisecond
	backend.VerifSetRetryIntervals(retryIv, 10*time.Millisecond)
	defer backend.VerifSetRetryIntervals(30*time.Millisecond, 10*time.Millisecond)
	var unresolved sync.Map // revision -> time of the engine's decision (the write cannot be queued before it)
	var frozen sync.Map     // key -> true: clients leave the key alone after an unknown outcome on it (half of the base faults)
	nInjected := int64(0)
	faultsOff := int32(0)
	e.w.BeforeCommit = func(b *harness.BatchInfo) {
		x := uint64(seed) ^ uint64(b.Seq)*0x9e3779b97f4a7c15
		x ^= x >> 29
		time.Sleep(time.Duration(x%400) * time.Microsecond)
	}
	// Unknown outcomes come in pairs: a base fault (4% of the write batches, two thirds of them applied) is answered
	// late, as a timeout would be, and the next write batch that reaches the engine while that answer is pending is
	// answered "unknown" at once - the younger revision is answered before the older one.
	var lateInFlight, followers int32
	e.w.Decide = func(b *harness.BatchInfo) harness.Decision {
		if _, rev, _, ok := b.Write(); ok && atomic.LoadInt32(&faultsOff) == 0 {
			x := uint64(seed)*31 ^ uint64(b.Seq)*0xc2b2ae3d27d4eb4f
			x ^= x >> 31
			if atomic.LoadInt32(&lateInFlight) > 0 && atomic.AddInt32(&followers, 1) == 1 {
				atomic.AddInt64(&nInjected, 1)
				unresolved.Store(rev, time.Now())
				b.Tag = "follower"
				if (x>>9)%2 == 0 {
					return harness.UncertainApplied
				}
				return harness.UncertainNotApplied
			}
			if x%100 < 4 {
				atomic.AddInt64(&nInjected, 1)
				unresolved.Store(rev, time.Now())
				if raw, _, _, _ := b.Write(); (x>>13)%2 == 0 {
					frozen.Store(string(raw), true)
				}
				b.Tag = "late"
				atomic.StoreInt32(&followers, 0)
				atomic.AddInt32(&lateInFlight, 1)
				if (x>>9)%3 != 0 {
					return harness.UncertainApplied
				}
				return harness.UncertainNotApplied
			}
		}
		return harness.Pass
	}
	// the unknown answer is slow to classify (6 ms per errors.Is): the sequencer classifies it between taking the
	// revision out of its slot, queueing it for repair and publishing it, so a compaction request can run in between
	var slowIs int64
	e.w.UncertainErr = func(b *harness.BatchInfo) error {
		return &harness.SlowUncertain{Delay: 6 * time.Millisecond, Calls: &slowIs}
	}
	e.w.AfterCommit = func(b *harness.BatchInfo, ret error) {
		e.after(b, ret)
		if b.Tag == "late" {
			x := uint64(seed)*131 ^ uint64(b.Seq)*0x9e3779b97f4a7c15
			x ^= x >> 27
			time.Sleep(time.Duration(5+x%15) * time.Millisecond)
			atomic.AddInt32(&lateInFlight, -1)
		}
	}
	// a compaction request is descheduled for 0-3 ms before each of the two reads that bound it (the readable revision,
	// the oldest unresolved revision): writes with unknown outcomes are sequenced in between
	var yields uint64
	ph := func(name string, arg uint64) {
		if name == "compact.beforeRevisionRead" || name == "compact.beforeQueueRead" {
			x := uint64(seed)*977 ^ atomic.AddUint64(&yields, 1)*0x9e3779b97f4a7c15
			x ^= x >> 30
			time.Sleep(time.Duration(x%3000) * time.Microsecond)
		}
	}
	e.n = harness.NewNode(harness.NodeOpts{KV: e.w, TrackNotify: true, Config: backend.Config{WatchCacheSize: 8192}, PointHandler: ph})
	defer e.close()
	n := e.n
	full := harness.Prefix + "/"
	fullEnd := string(backend.PrefixEnd([]byte(full)))
	l0, err := n.List(full, fullEnd, 0, 0)
	if err != nil {
		c.Inconclusive("initial list failed")
		return
	}
	wch, err := n.B.Watch(harness.Ctx, full, 0)
	if err != nil {
		c.Inconclusive("watch refused")
		return
	}
	var wg sync.WaitGroup
	var stop int32
	var hmu sync.Mutex
	for ci := 0; ci < 3; ci++ {
		wg.Add(1)
		rr := newRand(r.Int63())
		go func(ci int) {
			defer wg.Done()
			for i := 0; i < 40; i++ {
				key := keys[rr.Intn(len(keys))]
				if _, fr := frozen.Load(key); fr {
					continue
				}
				g, gerr := n.Get(key, 0)
				if gerr != nil {
					continue
				}
				var op harness.SeqOp
				val := []byte(fmt.Sprintf("c%d-%d", ci, i))
				switch {
				case g.Kv == nil:
					op = harness.SeqOp{Kind: "create", Key: key, Val: val}
				case rr.Intn(2) == 0:
					op = harness.SeqOp{Kind: "delete", Key: key, Exp: g.Kv.Revision}
				default:
					op = harness.SeqOp{Kind: "update", Key: key, Val: val, Exp: g.Kv.Revision}
				}
				out := n.Do(op)
				hmu.Lock()
				e.hist = append(e.hist, fmt.Sprintf("c%d %s -> %s", ci, op, out))
				hmu.Unlock()
			}
		}(ci)
	}
	var cwg sync.WaitGroup
	cwg.Add(1)
	compactions, capChecks := int64(0), int64(0)
	go func() {
		defer cwg.Done()
		for atomic.LoadInt32(&stop) == 0 {
			t0 := time.Now()
			resp, err := n.B.Compact(harness.Ctx, 0)
			t1 := time.Now()
			if err != nil {
				continue
			}
			atomic.AddInt64(&compactions, 1)
			unresolved.Range(func(k, v interface{}) bool {
				rev, decided := k.(uint64), v.(time.Time)
				// the write was dealt its revision and answered by the engine before Compact was called, and Compact
				// returned before the retry loop may look at it: the revision was unresolved all along
				if decided.Before(t0) && t1.Before(decided.Add(retryIv)) && resp.Header.GetRevision() >= rev {
					hmu.Lock()
					defer hmu.Unlock()
					c.Violatef("C09 compaction-advanced-past-unresolved-revision concurrent-unknown-outcomes", e.wit(), "Compact(max) answered effective revision %d while revision %d (outcome unknown, not yet repaired) was unresolved", resp.Header.GetRevision(), rev)
					return false
				}
				return true
			})
			atomic.AddInt64(&capChecks, 1)
			time.Sleep(300 * time.Microsecond)
		}
	}()
	wg.Wait()
	ok := e.quiesce()
	atomic.StoreInt32(&stop, 1)
	cwg.Wait()
	if c.R.Verdict == "violated" {
		return
	}
	if !ok {
		if missing, _, _, _ := n.Conservation(); len(missing) > 0 {
			c.Violatef("C09 later-requests-stuck concurrent", e.wit(), "revisions %v never resolved", firstN(missing, 4))
		} else {
			c.Inconclusive("watchdog: retry queue did not drain")
		}
		return
	}
	atomic.StoreInt32(&faultsOff, 1)
	sent, serr := n.Create(harness.Prefix+"/zz-sentinel", []byte("s"))
	if serr != nil || !sent.Succeeded {
		c.Inconclusive("sentinel write failed")
		return
	}
	var events []*proto.Event
	deadline := time.After(60 * time.Second)
	for done := false; !done; {
		select {
		case batch, okc := <-wch:
			if !okc {
				c.Violatef("C09 watch-closed concurrent", e.wit(), "the watch stream was closed")
				return
			}
			for _, ev := range batch {
				if string(ev.Kv.Key) == harness.Prefix+"/zz-sentinel" {
					done = true
					break
				}
				events = append(events, ev)
			}
		case <-deadline:
			c.Inconclusive("watchdog waiting for the sentinel event")
			return
		}
	}
	// store == highest landed write per key
	e.mu.Lock()
	truth := map[string]landed{}
	for _, l := range e.landedLog {
		if t, okt := truth[l.raw]; !okt || l.rev > t.rev {
			truth[l.raw] = l
		}
	}
	e.mu.Unlock()
	final, err := n.List(full, fullEnd, 0, 0)
	if err != nil {
		c.Violatef("C09 final-list-error concurrent", e.wit(), "final List: %v", err)
		return
	}
	finalMap := map[string]*proto.KeyValue{}
	for _, kv := range final.Kvs {
		finalMap[string(kv.Key)] = kv
	}
	delete(finalMap, harness.Prefix+"/zz-sentinel")
	for _, key := range keys {
		t, has := truth[key]
		fk := finalMap[key]
		wantLive := has && !bytes.Equal(t.val, []byte("tombstone"))
		if wantLive != (fk != nil) || (wantLive && (fk.Revision != t.rev || !bytes.Equal(fk.Value, t.val))) {
			c.Violatef("C09 store-did-not-converge concurrent", e.wit(), "key %q: engine's newest landed write is (%q,%d); List answers %v", key, trimB(t.val), t.rev, fk)
			return
		}
	}
	state := map[string]*proto.KeyValue{}
	for _, kv := range l0.Kvs {
		state[string(kv.Key)] = kv
	}
	var evs []string
	var last uint64
	for _, ev := range events {
		evs = append(evs, evStr(ev))
		if ev.Revision <= last {
			c.Violatef("C09 events-out-of-order concurrent", e.wit(), "event revisions not increasing: %v", evs)
			return
		}
		last = ev.Revision
		if ev.Type == proto.Event_DELETE {
			delete(state, string(ev.Kv.Key))
		} else {
			state[string(ev.Kv.Key)] = &proto.KeyValue{Key: ev.Kv.Key, Value: ev.Kv.Value, Revision: ev.Revision}
		}
	}
	var diffs []string
	for k, kv := range finalMap {
		if s, oks := state[k]; !oks || s.Revision != kv.Revision || !bytes.Equal(s.Value, kv.Value) {
			diffs = append(diffs, fmt.Sprintf("%q: store has (%q,%d), replay has %v", k, kv.Value, kv.Revision, s))
		}
	}
	for k, s := range state {
		if _, okf := finalMap[k]; !okf {
			diffs = append(diffs, fmt.Sprintf("%q: replay has (%q,%d), store has nothing", k, s.Value, s.Revision))
		}
	}
	if len(diffs) > 0 {
		sort.Strings(diffs)
		w := e.wit().(map[string]interface{})
		w["delivered_events"] = evs
		c.Violatef("C09 watch-stream-did-not-converge concurrent-clients-and-compaction", w, "pre-fault List + delivered events != final List after %d unknown outcomes and %d compactions: %v", atomic.LoadInt64(&nInjected), atomic.LoadInt64(&compactions), diffs)
		return
	}
	c.Stat("concurrent_unknown_outcomes_injected", atomic.LoadInt64(&nInjected))
	c.Stat("compactions_while_clients_ran", atomic.LoadInt64(&compactions))
	c.Stat("compaction_answers_checked_against_unresolved_set", atomic.LoadInt64(&capChecks))
	c.Stat("slow_classifications_of_unknown_answers", atomic.LoadInt64(&slowIs))
	fp := ""
	if atomic.LoadInt64(&nInjected) > 1 {
		fp = fmt.Sprintf("conc/%d/%d", c.Index, len(events))
	}
	c.AddExecution(fp)
}
