package props

import (
	"fmt"
	"strings"
	"time"

	proto "github.com/kubewharf/kubebrain-client/api/v2rpc"

	"github.com/kubewharf/kubebrain/pkg/backend"

	"verif/internal/harness"
)

// C12 — client-visible behaviour does not depend on the storage engine.
// The same PRNG request script is executed in lock-step on every engine; normalised transcripts
// (success flag / returned kv / error class / revisions / range results / events) must agree.

var c12Engines = []string{"memkv", "badger", "tikv", "memkv+m", "badger+m", "tikv+m", "tikv/split", "memkv/parts"}

func init() {
	Registry["C12"] = &Prop{
		Plan: func(tier string) Plan {
			return Plan{Level: "exploration", NCases: pick(tier, 120, 9600), Batch: 2, CaseTimeout: 90,
				Rule: "one case = one PRNG sequential script of 40-120 requests (create/update/delete with correct, stale and zero expectations on existing, missing, deleted and compacted keys, two of the seven keys being Event records written with the one-hour ttl; Get/List/Count at latest and old revisions; Compact) executed step by step on memkv, Badger, TiKV mock, the three metrics-wrapped variants, a TiKV mock pre-split into regions and a memkv reporting several partitions, all started at the same revision, plus one watcher from revision 0 per engine. " +
					"oracle = pairwise equality of normalised transcripts against the memkv run (error texts are not compared, only error vs response). " +
					"non-trivial = script with >=1 failed condition on a missing key, >=1 write on a deleted key, >=1 compaction followed by a read below it; distinct by script digest",
				Assumptions: []string{"error texts are not compared, only the class (error / response)", "each step waits for the read revision, so engine timing is not part of the transcript"},
				MinConcl:    pick(tier, 100, 8000)}
		},
		Name: func(c *harness.Case) string { return "lockstep" },
		Run:  runC12,
	}
}

func normList(resp *proto.RangeResponse, err error) string {
	if err != nil {
		return "error"
	}
	return fmt.Sprintf("header=%d more=%v %s", resp.Header.GetRevision(), resp.More, kvStr(resp.Kvs))
}

func runC12(c *harness.Case) {
	r := c.Rng
	type eng struct {
		kind string
		n    *harness.Node
		e    *harness.Engine
		w    <-chan []*proto.Event
		evs  []string
	}
	var engs []*eng
	c12Keys := []string{harness.Prefix + "/a", harness.Prefix + "/a/b", harness.Prefix + "/b", harness.Prefix + "/c", harness.Prefix + "/d"}
	for _, k := range c12Engines {
		var n *harness.Node
		var e *harness.Engine
		if strings.Contains(k, "/") {
			// the same engine family with the key space split into several partitions / regions
			kv, pe, _, ok := partitionedStore(c, r, strings.Split(k, "/")[0], c12Keys, 1000, 120)
			if !ok {
				return
			}
			e = pe
			n = harness.NewNode(harness.NodeOpts{KV: kv, Config: backend.Config{EnableEtcdCompatibility: true}})
		} else {
			var ok bool
			n, e, ok = newSeqNode(c, k, backend.Config{EnableEtcdCompatibility: true})
			if !ok {
				return
			}
		}
		defer e.Close()
		defer n.Retire()
		w, err := n.B.Watch(harness.Ctx, harness.Prefix+"/", 0)
		if err != nil {
			c.Inconclusive("watch from revision 0 refused: " + err.Error())
			return
		}
		engs = append(engs, &eng{kind: k, n: n, e: e, w: w})
	}
	m := harness.NewModel()
	// two of the keys are Event records (<prefix>/events/...), the only keys the backend writes with a ttl (one hour:
	// nothing expires during a case, so the engines with and without native ttl must still agree)
	keys := []string{"/a", "/a/b", "/b", "/c", "/d", "/events/ns/e1", "/events/e2"}
	var script []string
	full := harness.Prefix + "/"
	fullEnd := string(backend.PrefixEnd([]byte(full)))
	nMissingFail, nOnDeleted, nBelowCompact := 0, 0, 0
	var compacted uint64
	diverged := func(step string, outs []string) bool {
		for i := 1; i < len(outs); i++ {
			if outs[i] != outs[0] {
				sig := fmt.Sprintf("C12 transcripts-differ step=%s engines=%s-vs-%s", stepKind(step), engs[0].kind, trimM(engs[i].kind))
				c.Violatef(sig, map[string]interface{}{"script": script, "step": step, engs[0].kind: outs[0], engs[i].kind: outs[i]},
					"step %q: %s answered %s; %s answered %s", step, engs[0].kind, outs[0], engs[i].kind, outs[i])
				return true
			}
		}
		return false
	}
	nSteps := 40 + r.Intn(80)
	// every 10th case the clients send a lease id of 1 with their creates and updates, and the script pauses once for
	// 2.2 s half-way (longer than one second on every engine's clock): kubebrain has no leases, an engine with native
	// TTL must not behave differently from one without
	leased := c.Index%10 == 7
	for s := 0; s < nSteps; s++ {
		if leased && s == nSteps/2 {
			time.Sleep(2200 * time.Millisecond)
			c.Stat("scripts_with_lease_ids_and_a_pause", 1)
		}
		key := harness.Prefix + keys[r.Intn(len(keys))]
		live, latest := m.Live(key), m.Latest(key)
		x := r.Intn(100)
		switch {
		case x < 60: // write
			var op harness.SeqOp
			switch y := r.Intn(10); {
			case y < 3:
				op = harness.SeqOp{Kind: "create", Key: key, Val: []byte(fmt.Sprintf("v%d", s))}
			case y < 7:
				op = harness.SeqOp{Kind: "update", Key: key, Val: []byte(fmt.Sprintf("v%d", s))}
				switch z := r.Intn(6); {
				case z < 3 && live != nil:
					op.Exp = live.Rev
				case z < 5 && latest != nil:
					op.Exp = m.Keys[key][r.Intn(len(m.Keys[key]))].Rev
				case z < 5:
					op.Exp = engs[0].n.Start + 1 // guarded update of a key that never existed
				}
			default:
				op = harness.SeqOp{Kind: "delete", Key: key}
				switch z := r.Intn(6); {
				case z < 2 && live != nil:
					op.Exp = live.Rev
				case z < 4 && latest != nil:
					op.Exp = m.Keys[key][r.Intn(len(m.Keys[key]))].Rev
				case z < 4:
					op.Exp = engs[0].n.Start + 1
				}
			}
			if leased && op.Kind != "delete" {
				op.Lease = 1
			}
			if latest == nil && op.Kind != "create" && op.Exp != 0 {
				nMissingFail++
			}
			if latest != nil && latest.Del {
				nOnDeleted++
			}
			step := op.String()
			script = append(script, step)
			var outs []string
			for i, e := range engs {
				var out harness.Outcome
				if i == 0 {
					var mis string
					out, mis = e.n.ApplyChecked(m, op)
					_ = mis // agreement between engines is the property here; the reference model is C03's business
				} else {
					out = e.n.Do(op)
					if out.Err == "" && out.Rev > 0 {
						e.n.WaitCommitted(out.Rev, 30*time.Second)
					}
				}
				if out.Err != "" {
					outs = append(outs, "error")
				} else {
					outs = append(outs, out.String())
				}
			}
			if diverged(step, outs) {
				return
			}
		case x < 72:
			rev := uint64(0)
			if r.Intn(2) == 0 && engs[0].n.Committed() > engs[0].n.Start {
				rev = engs[0].n.Start + 1 + uint64(r.Int63n(int64(engs[0].n.Committed()-engs[0].n.Start)))
			}
			step := fmt.Sprintf("get(%q,rev=%d)", key, rev)
			script = append(script, step)
			var outs []string
			for _, e := range engs {
				g, err := e.n.Get(key, rev)
				if err != nil {
					outs = append(outs, "error")
				} else if g.Kv == nil {
					outs = append(outs, fmt.Sprintf("header=%d absent", g.Header.GetRevision()))
				} else {
					outs = append(outs, fmt.Sprintf("header=%d (%q,%d)", g.Header.GetRevision(), g.Kv.Value, g.Kv.Revision))
				}
			}
			if rev != 0 && rev < compacted {
				continue // a point read below the compaction floor is unconstrained
			}
			if diverged(step, outs) {
				return
			}
		case x < 88:
			rev := uint64(0)
			if r.Intn(2) == 0 && engs[0].n.Committed() > engs[0].n.Start {
				rev = engs[0].n.Start + 1 + uint64(r.Int63n(int64(engs[0].n.Committed()-engs[0].n.Start)))
			}
			if rev != 0 && rev < compacted {
				nBelowCompact++
			}
			lim := int64(r.Intn(4))
			step := fmt.Sprintf("list(rev=%d,limit=%d)", rev, lim)
			script = append(script, step)
			var outs []string
			for _, e := range engs {
				outs = append(outs, normList(e.n.List(full, fullEnd, rev, lim)))
			}
			if diverged(step, outs) {
				return
			}
		case x < 93:
			step := "count"
			script = append(script, step)
			var outs []string
			for _, e := range engs {
				cr, err := e.n.B.Count(harness.Ctx, &proto.CountRequest{Key: []byte(full), End: []byte(fullEnd)})
				if err != nil {
					outs = append(outs, "error")
				} else {
					outs = append(outs, fmt.Sprintf("header=%d count=%d", cr.Header.GetRevision(), cr.Count))
				}
			}
			if diverged(step, outs) {
				return
			}
		default:
			cur := engs[0].n.Committed()
			req := cur - uint64(r.Intn(6))
			step := fmt.Sprintf("compact(%d)", req)
			script = append(script, step)
			var outs []string
			for _, e := range engs {
				resp, err := e.n.B.Compact(harness.Ctx, req)
				if err != nil {
					outs = append(outs, "error")
				} else {
					outs = append(outs, fmt.Sprintf("effective=%d", resp.Header.GetRevision()))
				}
			}
			if req > compacted {
				compacted = req
			}
			if diverged(step, outs) {
				return
			}
		}
	}
	// events: a sentinel write closes the comparison window
	sent := harness.SeqOp{Kind: "create", Key: harness.Prefix + "/zz-sentinel", Val: []byte("s")}
	var evOuts []string
	for _, e := range engs {
		out := e.n.Do(sent)
		deadline := time.After(60 * time.Second)
		done := false
		for !done {
			select {
			case batch, ok := <-e.w:
				if !ok {
					e.evs = append(e.evs, "closed")
					done = true
					break
				}
				for _, ev := range batch {
					e.evs = append(e.evs, fmt.Sprintf("%s %q=%q rev=%d kvrev=%d", ev.Type, ev.Kv.Key, ev.Kv.Value, ev.Revision, ev.Kv.Revision))
					if ev.Revision >= out.Rev && out.Err == "" {
						done = true
					}
				}
			case <-deadline:
				c.Inconclusive("watchdog waiting for the sentinel event on " + e.kind)
				return
			}
		}
		evOuts = append(evOuts, fmt.Sprint(e.evs))
	}
	script = append(script, "events-through-sentinel")
	if diverged("events-through-sentinel", evOuts) {
		return
	}
	c.Stat("script_steps", int64(len(script)))
	c.Stat("events_compared_per_engine", int64(len(engs[0].evs)))
	c.Stat("engines_per_script", int64(len(engs)))
	for _, e := range engs {
		c.AddSet("engines", e.kind)
	}
	c.Fingerprint(nMissingFail > 0 && nOnDeleted > 0 && nBelowCompact > 0, script)
	if c.Index < 3 {
		h := script
		if len(h) > 30 {
			h = h[:30]
		}
		c.R.Sample = map[string]interface{}{"script_head": h, "events": len(engs[0].evs)}
	}
}

func stepKind(step string) string {
	for i, ch := range step {
		if ch == '(' {
			return step[:i]
		}
	}
	return step
}

func trimM(kind string) string { return kind }
