package props

import (
	"bytes"
	"context"
	"errors"
	"fmt"
	"math/rand"
	"sort"
	"strings"
	"sync"
	"sync/atomic"
	"time"

	proto "github.com/kubewharf/kubebrain-client/api/v2rpc"
	"go.etcd.io/etcd/api/v3/etcdserverpb"
	"go.etcd.io/etcd/api/v3/mvccpb"
	clientv3 "go.etcd.io/etcd/client/v3"

	"github.com/kubewharf/kubebrain/pkg/backend"
	"github.com/kubewharf/kubebrain/pkg/server/brain"
	"github.com/kubewharf/kubebrain/pkg/server/etcd"

	"verif/internal/harness"
)

// C16 — the etcd-facing API answers Kubernetes' requests as etcd would.

var c16Engines = []string{"memkv", "tikv", "badger", "memkv", "tikv/split", "memkv", "tikv", "badger", "memkv/parts"}

func init() {
	Registry["C16"] = &Prop{
		Plan: func(tier string) Plan {
			return Plan{Level: "exploration", NCases: pick(tier, 300, 60000), Batch: 6, CaseTimeout: 120,
				Rule: "one case = a PRNG sequential history of 40-150 etcd requests sent to the real etcd.RPCServer handlers (every 5th sequential case over a real loopback gRPC connection, its watch opened with the real etcd clientv3): the four transaction shapes Kubernetes issues (create-if-absent, guarded update, guarded delete, unguarded delete) with correct / stale / zero expected revisions over existing, missing and deleted keys; Range point reads and range reads with all bounds, limits and old revisions, count-only; one prefix watch with prev_kv; every 6th case instead 4 concurrent etcd clients on one key (memkv/Badger) whose failed compares must never return the compared revision; the sequential cases are interleaved with structurally valid but unsupported transactions (two compares, VALUE/CREATE/VERSION targets, !=,<,> results, two puts, put+delete, nested txn, prev_kv/ignore_* flags, range deletes, compare/put/delete naming different keys, range compares). " +
					"oracle = etcd-semantics reference (MVCC map; adopts the response revision on success): success flag, failure-branch kv, mod revisions, order, count, more, watch PUT/DELETE with prev_kv; unsupported => error AND unchanged state (full range equal, no event). " +
					"non-trivial = history with >=1 failed guarded write returning the current kv, >=1 zero-revision guarded request, >=1 limited range cut short and >=3 unsupported shapes; distinct by outcome vector",
				Assumptions: []string{"EnableEtcdCompatibility is on (count is a stub otherwise)", "only the fields the property names are compared (not the op type of success-branch responses)"},
				MinConcl:    pick(tier, 220, 50000)}
		},
		Name: func(c *harness.Case) string { return "etcd-" + c16Engines[c.Index%len(c16Engines)] },
		Run:  runC16,
	}
}

type etcdRig struct {
	c                            *harness.Case
	n                            *harness.Node
	api                          etcdAPI // the real handlers in-process, or the same through a real gRPC connection
	m                            *harness.Model
	hist                         []string
	vec                          []byte
	fw                           *fakeWatchServer
	wcancel                      context.CancelFunc
	truth                        []truthEv
	nFailKv, nZero, nCut, nUnsup int
}

func (e *etcdRig) wit() interface{} {
	h := e.hist
	if len(h) > 300 {
		h = h[len(h)-300:]
	}
	return map[string]interface{}{"engine": e.c.R.Name, "etcd_requests": h}
}

func rangeKvs(resp *etcdserverpb.TxnResponse) ([]*mvccpb.KeyValue, bool) {
	for _, r := range resp.GetResponses() {
		if rr := r.GetResponseRange(); rr != nil {
			return rr.Kvs, true
		}
	}
	return nil, false
}

func kvDesc(kvs []*mvccpb.KeyValue) string {
	s := "["
	for _, kv := range kvs {
		s += fmt.Sprintf("%q=%q@%d ", kv.Key, trimB(kv.Value), kv.ModRevision)
	}
	return s + "]"
}

// txn sends a supported transaction and compares with etcd semantics.
// kind: create | update | gdelete | udelete ; rev = expected mod revision
func (e *etcdRig) txn(kind, key string, val []byte, rev int64) bool {
	c := e.c
	var req *etcdserverpb.TxnRequest
	switch kind {
	case "create":
		req = etcdCreate(key, val)
	case "update":
		req = etcdUpdate(key, val, rev)
	case "gdelete":
		req = etcdGuardedDelete(key, rev)
	case "udelete":
		req = etcdUnguardedDelete(key)
	}
	live := e.m.Live(key)
	var curRev int64
	if live != nil {
		curRev = int64(live.Rev)
	}
	// etcd: a compare on mod revision sees 0 for a key that does not exist
	compareOK := kind == "udelete" || (kind == "create" && curRev == 0) || (kind != "create" && curRev == rev)
	resp, err := e.api.Txn(context.Background(), req)
	desc := fmt.Sprintf("%s(%q,mod=%d)", kind, key, rev)
	if err != nil {
		e.hist = append(e.hist, desc+" -> error "+err.Error())
		c.Violatef("C16 supported-shape-answered-with-error shape="+kind, e.wit(), "%s answered error %v; etcd would answer succeeded=%v", desc, err, compareOK)
		return false
	}
	kvs, _ := rangeKvs(resp)
	e.hist = append(e.hist, fmt.Sprintf("%s -> succeeded=%v header=%d kvs=%s", desc, resp.Succeeded, resp.Header.GetRevision(), kvDesc(kvs)))
	if rev == 0 && (kind == "update" || kind == "gdelete") {
		e.nZero++
	}
	if resp.Succeeded != compareOK {
		sig := fmt.Sprintf("C16 success-flag-differs-from-etcd shape=%s", kind)
		if rev == 0 && kind == "gdelete" {
			sig += " expected=zero key-exists"
		}
		if kind == "udelete" {
			sig += " key-missing"
		}
		c.Violatef(sig, e.wit(), "%s answered succeeded=%v; etcd semantics: the key's mod revision is %d, so succeeded=%v", desc, resp.Succeeded, curRev, compareOK)
		// keep the model in step with what the node actually did so that later steps stay meaningful
	}
	hdr := uint64(resp.Header.GetRevision())
	for _, kv := range kvs {
		if resp.Header.GetRevision() < kv.ModRevision {
			c.Violatef("C16 header-below-data", e.wit(), "%s: header %d < kv mod revision %d", desc, resp.Header.GetRevision(), kv.ModRevision)
		}
	}
	if hdr > 0 {
		e.n.WaitCommitted(hdr, 30*time.Second)
	}
	applied := false
	switch kind {
	case "create", "update":
		if resp.Succeeded {
			applied = true
			e.m.Put(key, hdr, val)
			t := truthEv{Rev: hdr, Key: key, Val: val}
			e.truth = append(e.truth, t)
			e.vec = append(e.vec, kind[0])
		} else {
			e.vec = append(e.vec, 'f')
			if kind == "update" {
				// failure branch: the current key-value
				if live == nil {
					if len(kvs) != 0 {
						c.Violatef("C16 failure-branch-kv-differs shape=update", e.wit(), "%s failed and returned %s; the key does not exist", desc, kvDesc(kvs))
					}
				} else {
					e.nFailKv++
					if len(kvs) != 1 || string(kvs[0].Key) != key || !bytes.Equal(kvs[0].Value, live.Val) || kvs[0].ModRevision != curRev {
						c.Violatef("C16 failure-branch-kv-differs shape=update", e.wit(), "%s failed and returned %s; the current key-value is (%q,%d)", desc, kvDesc(kvs), trimB(live.Val), curRev)
					}
				}
			}
		}
	case "gdelete", "udelete":
		deleted := resp.Succeeded && live != nil
		if kind == "gdelete" && resp.Succeeded && !compareOK {
			deleted = true // (already reported) the node deleted although etcd would not have
		}
		if kind == "udelete" {
			// Then(Get, Delete): the range response carries the key-value as it was before the delete
			if live != nil {
				deleted = true
				if len(kvs) != 1 || !bytes.Equal(kvs[0].Value, live.Val) || kvs[0].ModRevision != curRev {
					c.Violatef("C16 unguarded-delete-previous-kv-differs", e.wit(), "%s returned %s; the key-value before the delete was (%q,%d)", desc, kvDesc(kvs), trimB(live.Val), curRev)
				}
			} else if len(kvs) != 0 {
				c.Violatef("C16 unguarded-delete-previous-kv-differs", e.wit(), "%s returned %s; the key did not exist", desc, kvDesc(kvs))
			}
		}
		if kind == "gdelete" && !resp.Succeeded && compareOK == false {
			if live != nil {
				e.nFailKv++
				if len(kvs) != 1 || !bytes.Equal(kvs[0].Value, live.Val) || kvs[0].ModRevision != curRev {
					c.Violatef("C16 failure-branch-kv-differs shape=gdelete", e.wit(), "%s failed and returned %s; the current key-value is (%q,%d)", desc, kvDesc(kvs), trimB(live.Val), curRev)
				}
			} else if len(kvs) != 0 {
				c.Violatef("C16 failure-branch-kv-differs shape=gdelete", e.wit(), "%s failed and returned %s; the key does not exist", desc, kvDesc(kvs))
			}
		}
		if deleted {
			// did the node really delete? trust a read
			g, _ := e.n.Get(key, 0)
			if g != nil && g.Kv == nil && live != nil {
				applied = true
				e.m.Del(key, hdr)
				e.truth = append(e.truth, truthEv{Rev: hdr, Key: key, Val: live.Val, PrevRev: live.Rev, Type: proto.Event_DELETE})
				e.vec = append(e.vec, 'd')
			}
		} else {
			e.vec = append(e.vec, 'f')
		}
	}
	_ = applied
	return true
}

func (e *etcdRig) rangeReq(r *rand.Rand) {
	c := e.c
	full := harness.Prefix + "/"
	bounds := []string{full, full + "a", full + "a/", full + "b", full + "b0", full + "c", full + "zz", string(backend.PrefixEnd([]byte(full)))}
	var R int64
	cur := e.n.Committed()
	if r.Intn(3) == 0 && cur > e.n.Start+1 {
		R = int64(e.n.Start + 1 + uint64(r.Int63n(int64(cur-e.n.Start))))
	}
	eff := uint64(R)
	if R == 0 {
		eff = cur
	}
	if r.Intn(3) == 0 {
		// point read
		keys := e.m.SortedKeys()
		key := full + "nokey"
		if len(keys) > 0 && r.Intn(5) > 0 {
			key = keys[r.Intn(len(keys))]
		}
		resp, err := e.api.Range(context.Background(), &etcdserverpb.RangeRequest{Key: []byte(key), Revision: R})
		want := e.m.At(key, eff)
		e.hist = append(e.hist, fmt.Sprintf("get(%q,rev=%d) -> %v", key, R, kvDesc(resp.GetKvs())))
		if err != nil {
			c.Violatef("C16 point-read-error", e.wit(), "Range(%q,rev=%d) error %v", key, R, err)
			return
		}
		ok := (want == nil && len(resp.Kvs) == 0 && resp.Count == 0) ||
			(want != nil && len(resp.Kvs) == 1 && bytes.Equal(resp.Kvs[0].Value, want.Val) && resp.Kvs[0].ModRevision == int64(want.Rev) && resp.Count == 1 && string(resp.Kvs[0].Key) == key)
		if !ok {
			c.Violatef("C16 point-read-differs-from-etcd", e.wit(), "Range(%q,rev=%d) = %s count=%d; etcd semantics give %s", key, R, kvDesc(resp.Kvs), resp.Count, verS(want))
		}
		return
	}
	a, b := bounds[r.Intn(len(bounds))], bounds[r.Intn(len(bounds))]
	if a >= b {
		a, b = b, a
	}
	if a == b {
		return
	}
	want := e.m.Snapshot(a, b, eff)
	if r.Intn(5) == 0 && R == 0 {
		resp, err := e.api.Range(context.Background(), &etcdserverpb.RangeRequest{Key: []byte(a), RangeEnd: []byte(b), CountOnly: true})
		e.hist = append(e.hist, fmt.Sprintf("count(%q,%q) -> %d", a, b, resp.GetCount()))
		if err != nil || resp.Count != int64(len(want)) || len(resp.Kvs) != 0 {
			c.Violatef("C16 count-only-differs-from-etcd", e.wit(), "count-only Range(%q,%q) = count %d kvs %d (err %v); etcd semantics give %d", a, b, resp.GetCount(), len(resp.GetKvs()), err, len(want))
		}
		return
	}
	lim := int64(0)
	if r.Intn(2) == 0 {
		lim = int64(1 + r.Intn(len(want)+2))
	}
	resp, err := e.api.Range(context.Background(), &etcdserverpb.RangeRequest{Key: []byte(a), RangeEnd: []byte(b), Limit: lim, Revision: R})
	if err != nil {
		e.hist = append(e.hist, fmt.Sprintf("range(%q,%q,limit=%d,rev=%d) -> error %v", a, b, lim, R, err))
		c.Violatef("C16 range-read-error", e.wit(), "Range(%q,%q,limit=%d,rev=%d) error %v", a, b, lim, R, err)
		return
	}
	e.hist = append(e.hist, fmt.Sprintf("range(%q,%q,limit=%d,rev=%d) -> %d kvs more=%v count=%d", a, b, lim, R, len(resp.Kvs), resp.More, resp.Count))
	w := want
	more := false
	if lim > 0 && int64(len(want)) > lim {
		w, more = want[:lim], true
		e.nCut++
	}
	okKvs := len(w) == len(resp.Kvs)
	if okKvs {
		for i := range w {
			if w[i].Key != string(resp.Kvs[i].Key) || !bytes.Equal(w[i].Val, resp.Kvs[i].Value) || int64(w[i].Rev) != resp.Kvs[i].ModRevision {
				okKvs = false
			}
		}
	}
	if !okKvs || resp.More != more {
		c.Violatef("C16 range-read-differs-from-etcd", e.wit(), "Range(%q,%q,limit=%d,rev=%d) = %s more=%v; etcd semantics give %s more=%v", a, b, lim, R, kvDesc(resp.Kvs), resp.More, mkvStr(w), more)
		return
	}
	// etcd: count is the number of keys in the range, whatever the limit
	if resp.Count != int64(len(want)) {
		sig := "C16 range-count-differs-from-etcd"
		if more {
			sig += " limited-range"
		}
		c.Violatef(sig, e.wit(), "Range(%q,%q,limit=%d,rev=%d) reports count=%d; the range holds %d keys at that revision", a, b, lim, R, resp.Count, len(want))
	}
	for _, kv := range resp.Kvs {
		if resp.Header.GetRevision() < kv.ModRevision {
			c.Violatef("C16 header-below-data", e.wit(), "range header %d < kv mod revision %d", resp.Header.GetRevision(), kv.ModRevision)
		}
	}
}

func put(key string, val []byte) *etcdserverpb.RequestOp {
	return &etcdserverpb.RequestOp{Request: &etcdserverpb.RequestOp_RequestPut{RequestPut: &etcdserverpb.PutRequest{Key: []byte(key), Value: val}}}
}
func del(key string) *etcdserverpb.RequestOp {
	return &etcdserverpb.RequestOp{Request: &etcdserverpb.RequestOp_RequestDeleteRange{RequestDeleteRange: &etcdserverpb.DeleteRangeRequest{Key: []byte(key)}}}
}
func rng(key string) *etcdserverpb.RequestOp {
	return &etcdserverpb.RequestOp{Request: &etcdserverpb.RequestOp_RequestRange{RequestRange: &etcdserverpb.RangeRequest{Key: []byte(key)}}}
}
func cmpMod(key string, res etcdserverpb.Compare_CompareResult, rev int64) *etcdserverpb.Compare {
	return &etcdserverpb.Compare{Target: etcdserverpb.Compare_MOD, Result: res, Key: []byte(key), TargetUnion: &etcdserverpb.Compare_ModRevision{ModRevision: rev}}
}

// unsupported builds one structurally valid transaction outside the supported shapes.
func (e *etcdRig) unsupported(r *rand.Rand, keyA, keyB string) (string, *etcdserverpb.TxnRequest) {
	revA := int64(0)
	if l := e.m.Live(keyA); l != nil {
		revA = int64(l.Rev)
	}
	v := []byte("unsupported-payload")
	EQ := etcdserverpb.Compare_EQUAL
	switch r.Intn(16) {
	case 0:
		return "two-compares", &etcdserverpb.TxnRequest{Compare: []*etcdserverpb.Compare{cmpMod(keyA, EQ, revA), cmpMod(keyB, EQ, 0)}, Success: []*etcdserverpb.RequestOp{put(keyA, v)}, Failure: []*etcdserverpb.RequestOp{rng(keyA)}}
	case 1:
		return "value-compare", &etcdserverpb.TxnRequest{Compare: []*etcdserverpb.Compare{{Target: etcdserverpb.Compare_VALUE, Result: EQ, Key: []byte(keyA), TargetUnion: &etcdserverpb.Compare_Value{Value: []byte("x")}}}, Success: []*etcdserverpb.RequestOp{put(keyA, v)}, Failure: []*etcdserverpb.RequestOp{rng(keyA)}}
	case 2:
		return "create-revision-compare", &etcdserverpb.TxnRequest{Compare: []*etcdserverpb.Compare{{Target: etcdserverpb.Compare_CREATE, Result: EQ, Key: []byte(keyA), TargetUnion: &etcdserverpb.Compare_CreateRevision{CreateRevision: 0}}}, Success: []*etcdserverpb.RequestOp{put(keyA, v)}}
	case 3:
		return "version-compare", &etcdserverpb.TxnRequest{Compare: []*etcdserverpb.Compare{{Target: etcdserverpb.Compare_VERSION, Result: EQ, Key: []byte(keyA), TargetUnion: &etcdserverpb.Compare_Version{Version: 0}}}, Success: []*etcdserverpb.RequestOp{put(keyA, v)}, Failure: []*etcdserverpb.RequestOp{rng(keyA)}}
	case 4:
		res := []etcdserverpb.Compare_CompareResult{etcdserverpb.Compare_NOT_EQUAL, etcdserverpb.Compare_GREATER, etcdserverpb.Compare_LESS}[r.Intn(3)]
		return "compare-result-" + res.String(), &etcdserverpb.TxnRequest{Compare: []*etcdserverpb.Compare{cmpMod(keyA, res, revA)}, Success: []*etcdserverpb.RequestOp{put(keyA, v)}, Failure: []*etcdserverpb.RequestOp{rng(keyA)}}
	case 5:
		return "two-puts", &etcdserverpb.TxnRequest{Compare: []*etcdserverpb.Compare{cmpMod(keyA, EQ, revA)}, Success: []*etcdserverpb.RequestOp{put(keyA, v), put(keyB, v)}, Failure: []*etcdserverpb.RequestOp{rng(keyA)}}
	case 6:
		return "put-and-delete", &etcdserverpb.TxnRequest{Compare: []*etcdserverpb.Compare{cmpMod(keyA, EQ, revA)}, Success: []*etcdserverpb.RequestOp{put(keyA, v), del(keyB)}, Failure: []*etcdserverpb.RequestOp{rng(keyA)}}
	case 7:
		nested := &etcdserverpb.RequestOp{Request: &etcdserverpb.RequestOp_RequestTxn{RequestTxn: etcdCreate(keyB, v)}}
		return "nested-txn", &etcdserverpb.TxnRequest{Compare: []*etcdserverpb.Compare{cmpMod(keyA, EQ, revA)}, Success: []*etcdserverpb.RequestOp{nested}, Failure: []*etcdserverpb.RequestOp{rng(keyA)}}
	case 8:
		req := etcdUpdate(keyA, v, revA)
		p := req.Success[0].GetRequestPut()
		switch r.Intn(3) {
		case 0:
			p.PrevKv = true
			return "update-with-prev_kv", req
		case 1:
			p.IgnoreValue = true
			return "update-with-ignore_value", req
		}
		p.IgnoreLease = true
		return "update-with-ignore_lease", req
	case 9:
		req := etcdGuardedDelete(keyA, revA)
		req.Success[0].GetRequestDeleteRange().RangeEnd = backend.PrefixEnd([]byte(keyA))
		return "guarded-range-delete", req
	case 10:
		req := etcdUnguardedDelete(keyA)
		req.Success[1].GetRequestDeleteRange().RangeEnd = []byte(harness.Prefix + "0")
		return "unguarded-range-delete", req
	case 11:
		// compare names keyA, put names keyB
		req := etcdUpdate(keyA, v, revA)
		req.Success[0].GetRequestPut().Key = []byte(keyB)
		return "update-compare-and-put-name-different-keys", req
	case 12:
		req := etcdGuardedDelete(keyA, revA)
		req.Success[0].GetRequestDeleteRange().Key = []byte(keyB)
		return "delete-compare-and-delete-name-different-keys", req
	case 13:
		// create whose compare is about another (existing) key
		req := etcdCreate(keyB, v)
		req.Compare[0].Key = []byte(keyA)
		return "create-compare-and-put-name-different-keys", req
	case 14:
		req := etcdUpdate(keyA, v, revA)
		req.Compare[0].RangeEnd = backend.PrefixEnd([]byte(keyA))
		return "range-compare", req
	default:
		req := etcdGuardedDelete(keyA, revA)
		req.Success[0].GetRequestDeleteRange().PrevKv = true
		return "delete-with-prev_kv", req
	}
}

func (e *etcdRig) fullState() string {
	full := harness.Prefix + "/"
	l, err := e.n.List(full, string(backend.PrefixEnd([]byte(full))), 0, 0)
	if err != nil {
		return "error:" + err.Error()
	}
	return kvStr(l.Kvs)
}

// runC16Concurrent: concurrent etcd clients on one key. Under etcd semantics compare and failure-branch read are
// one atomic step, so a failed guarded transaction can never return a key-value whose mod revision equals the
// revision it compared with (revisions only grow). Runs on all three engines (on TiKV since fix 1ef9d67: a write conflict
// used to be answered as a failed compare).
type c16Ver struct {
	rev int64
	val string
	del bool
}

func runC16Concurrent(c *harness.Case) {
	r := c.Rng
	kind := []string{"memkv", "badger", "tikv"}[r.Intn(3)]
	n, eng, ok := newSeqNode(c, kind, backend.Config{EnableEtcdCompatibility: true})
	if !ok {
		return
	}
	defer eng.Close()
	defer n.Retire()
	srv := etcd.New(n.B, n.Metrics, harness.NewPeers(true))
	key := harness.Prefix + "/conc"
	var mu sync.Mutex
	var hist []string
	var wg sync.WaitGroup
	nFail := int64(0)
	var succ []c16Ver
	type c16Read struct {
		header int64
		kvs    []*mvccpb.KeyValue
		limit  int64
	}
	var reads []c16Read
	var stopReaders int32
	var rwg sync.WaitGroup
	for ri := 0; ri < 2; ri++ {
		rwg.Add(1)
		go func(ri int) {
			defer rwg.Done()
			for atomic.LoadInt32(&stopReaders) == 0 {
				resp, err := srv.Range(context.Background(), &etcdserverpb.RangeRequest{Key: []byte(key), RangeEnd: backend.PrefixEnd([]byte(key)), Limit: int64(ri * 10)})
				if err == nil {
					mu.Lock()
					if len(reads) < 4000 {
						reads = append(reads, c16Read{header: resp.Header.GetRevision(), kvs: resp.Kvs, limit: int64(ri * 10)})
					}
					mu.Unlock()
				}
				time.Sleep(time.Duration(30+ri*40) * time.Microsecond)
			}
		}(ri)
	}
	for ci := 0; ci < 4; ci++ {
		wg.Add(1)
		rr := newRand(r.Int63())
		go func(ci int) {
			defer wg.Done()
			var last int64
			for i := 0; i < 60; i++ {
				var req *etcdserverpb.TxnRequest
				kindReq := ""
				switch x := rr.Intn(10); {
				case x < 3:
					req, kindReq = etcdCreate(key, []byte(fmt.Sprintf("c%d-%d", ci, i))), "create"
				case x < 7:
					req, kindReq = etcdUpdate(key, []byte(fmt.Sprintf("c%d-%d", ci, i)), last), "update"
				default:
					req, kindReq = etcdGuardedDelete(key, last), "gdelete"
				}
				cmpRev := last
				resp, err := srv.Txn(context.Background(), req)
				if err != nil {
					continue
				}
				kvs, _ := rangeKvs(resp)
				line := fmt.Sprintf("c%d %s(mod=%d) -> succeeded=%v header=%d kvs=%s", ci, kindReq, cmpRev, resp.Succeeded, resp.Header.GetRevision(), kvDesc(kvs))
				mu.Lock()
				hist = append(hist, line)
				mu.Unlock()
				if resp.Succeeded {
					last = resp.Header.GetRevision()
					if kindReq != "gdelete" || cmpRev != 0 {
						// (a delete guarded by mod revision 0 "succeeds" on an absent key without changing anything)
						mu.Lock()
						succ = append(succ, c16Ver{rev: last, val: fmt.Sprintf("c%d-%d", ci, i), del: kindReq == "gdelete"})
						mu.Unlock()
					}
					if kindReq == "gdelete" {
						last = 0
					}
					continue
				}
				atomic.AddInt64(&nFail, 1)
				if kindReq != "create" && cmpRev != 0 && len(kvs) == 1 && kvs[0].ModRevision == cmpRev {
					mu.Lock()
					h := append([]string(nil), hist...)
					mu.Unlock()
					if len(h) > 80 {
						h = h[len(h)-80:]
					}
					c.Violatef("C16 failure-branch-kv-at-compared-revision shape="+kindReq+" concurrent", map[string]interface{}{"engine": kind, "requests_tail": h},
						"%s: the transaction failed its compare on mod revision %d, yet the key-value in its failure branch has exactly that mod revision; under etcd semantics compare and failure-branch read are atomic", line, cmpRev)
				}
				if len(kvs) == 1 {
					last = kvs[0].ModRevision
				} else {
					last = 0
				}
			}
		}(ci)
	}
	wg.Wait()
	atomic.StoreInt32(&stopReaders, 1)
	rwg.Wait()
	// every concurrent etcd Range must be the key's state at the revision its header names (etcd answers a range at
	// exactly its header revision; kube-apiserver lists at it and watches from it)
	sort.Slice(succ, func(i, j int) bool { return succ[i].rev < succ[j].rev })
	for _, rd := range reads {
		var cur *c16Ver
		for i := range succ {
			if succ[i].rev <= rd.header {
				cur = &succ[i]
			}
		}
		wantLive := cur != nil && !cur.del
		ok := (wantLive && len(rd.kvs) == 1 && rd.kvs[0].ModRevision == cur.rev && string(rd.kvs[0].Value) == cur.val) || (!wantLive && len(rd.kvs) == 0)
		if !ok {
			mu.Lock()
			h := append([]string(nil), hist...)
			mu.Unlock()
			if len(h) > 80 {
				h = h[len(h)-80:]
			}
			want := "absent"
			if wantLive {
				want = fmt.Sprintf("(%q, mod %d)", cur.val, cur.rev)
			}
			again, aerr := srv.Range(context.Background(), &etcdserverpb.RangeRequest{Key: []byte(key), RangeEnd: backend.PrefixEnd([]byte(key)), Revision: rd.header})
			againS := fmt.Sprintf("error %v", aerr)
			if aerr == nil {
				againS = fmt.Sprintf("header %d kvs %s", again.Header.GetRevision(), kvDesc(again.Kvs))
			}
			var sv []string
			sv = append(sv, fmt.Sprintf("limit=%d; the same Range asked again afterwards at revision %d answers: %s", rd.limit, rd.header, againS))
			for _, v := range succ {
				if v.rev+6 >= rd.header && v.rev <= rd.header+6 {
					sv = append(sv, fmt.Sprintf("%+v", v))
				}
			}
			c.Violatef("C16 concurrent-range-is-not-the-state-at-its-header-revision", map[string]interface{}{"engine": kind, "requests_tail": h, "acknowledged_successes_near": sv},
				"a Range issued while transactions were running answered header revision %d with kvs %s; the acknowledged transactions say the key was %s at that revision", rd.header, kvDesc(rd.kvs), want)
			break
		}
	}
	c.Stat("concurrent_range_reads_checked", int64(len(reads)))
	c.Stat("concurrent_etcd_requests", int64(len(hist)))
	c.Stat("concurrent_failed_compares", atomic.LoadInt64(&nFail))
	c.AddSet("engines", "concurrent-"+kind)
	c.Fingerprint(atomic.LoadInt64(&nFail) > 10, "concurrent", kind, c.Index)
}

func runC16(c *harness.Case) {
	r := c.Rng
	if c.Index%6 == 5 {
		runC16Concurrent(c)
		return
	}
	kind := c16Engines[c.Index%len(c16Engines)]
	var n *harness.Node
	var eng *harness.Engine
	var iw *harness.Wrap // in the storage path of every case, for the transient-iterator-error probe at the end
	if strings.Contains(kind, "/") {
		// the engine reports several partitions (TiKV mock pre-split into regions / GetPartitions override), with
		// borders among the keys this case writes: the etcd answers must not depend on that
		pkeys := []string{harness.Prefix + "/a", harness.Prefix + "/a/b", harness.Prefix + "/b", harness.Prefix + "/b/c", harness.Prefix + "/c", harness.Prefix + "/d"}
		kv, e2, _, ok := partitionedStore(c, newRand(c.Rng.Int63()), strings.Split(kind, "/")[0], pkeys, 1000, 60)
		if !ok {
			return
		}
		eng = e2
		iw = harness.NewWrap(kv)
		n = harness.NewNode(harness.NodeOpts{KV: iw, Config: backend.Config{EnableEtcdCompatibility: true}})
	} else {
		var err error
		if eng, err = harness.NewEngine(kind); err != nil {
			c.Inconclusive("engine: " + err.Error())
			return
		}
		iw = harness.NewWrap(eng.KV)
		n = harness.NewNode(harness.NodeOpts{KV: iw, Config: backend.Config{EnableEtcdCompatibility: true}})
	}
	defer eng.Close()
	defer n.Retire()
	srvReal := etcd.New(n.B, n.Metrics, harness.NewPeers(true))
	e := &etcdRig{c: c, n: n, m: harness.NewModel(), api: srvReal}
	var cli *clientv3.Client
	if c.Index%5 == 4 {
		// every 5th sequential case talks to the node over a real loopback gRPC connection; its watch is opened with
		// the real etcd client (clientv3), the client Kubernetes uses
		rmG := harness.NewRecMetrics(true)
		g, gerr := newGRPCNode(srvReal, brain.New(n.B, n.Metrics, harness.NewPeers(true)), rmG)
		if gerr != nil {
			c.Inconclusive("grpc: " + gerr.Error())
			return
		}
		defer g.close()
		e.api = g.etcdGRPC
		var cerr error
		cli, cerr = clientv3.New(clientv3.Config{Endpoints: []string{g.addr}, DialTimeout: 5 * time.Second})
		if cerr != nil {
			c.Inconclusive("clientv3: " + cerr.Error())
			return
		}
		defer cli.Close()
		c.AddSet("transports", "grpc+clientv3-watch")
	} else {
		c.AddSet("transports", "in-process")
	}
	keys := []string{"/a", "/a/b", "/b", "/b/c", "/c", "/d"}
	for i := range keys {
		keys[i] = harness.Prefix + keys[i]
	}
	// one prefix watch with prev_kv from the beginning
	ctx, cancel := context.WithCancel(context.Background())
	defer cancel()
	e.fw = newFakeWatchServer(ctx)
	full := harness.Prefix + "/"
	if cli != nil {
		wch := cli.Watch(ctx, full, clientv3.WithPrefix(), clientv3.WithPrevKV(), clientv3.WithRev(int64(n.Committed()+1)))
		go func() {
			for wr := range wch {
				m := &etcdserverpb.WatchResponse{Canceled: wr.Canceled || wr.Err() != nil}
				for _, ev := range wr.Events {
					m.Events = append(m.Events, (*mvccpb.Event)(ev))
				}
				e.fw.Send(m)
			}
		}()
	} else {
		wdone := make(chan error, 1)
		go func() { wdone <- srvReal.Watch(e.fw) }()
		e.fw.in <- &etcdserverpb.WatchRequest{RequestUnion: &etcdserverpb.WatchRequest_CreateRequest{CreateRequest: &etcdserverpb.WatchCreateRequest{
			Key: []byte(full), RangeEnd: backend.PrefixEnd([]byte(full)), StartRevision: int64(n.Committed() + 1), PrevKv: true}}}
		// wait for the created message
		for i := 0; i < 20000; i++ {
			if len(e.fw.snapshot()) > 0 {
				break
			}
			time.Sleep(100 * time.Microsecond)
		}
	}
	// the handler registers with the backend right after sending "created": wait for the subscription (hook counter)
	for i := 0; i < 600000 && n.PointCount("afterSubscribe") == 0; i++ {
		time.Sleep(100 * time.Microsecond)
	}
	if n.PointCount("afterSubscribe") == 0 {
		c.Inconclusive("the watch did not reach the backend within the watchdog")
		return
	}
	time.Sleep(time.Millisecond)
	nReq := 40 + r.Intn(110)
	for i := 0; i < nReq; i++ {
		key := keys[r.Intn(len(keys))]
		live := e.m.Live(key)
		var rev int64
		switch y := r.Intn(10); {
		case y < 5 && live != nil:
			rev = int64(live.Rev)
		case y < 7 && e.m.Latest(key) != nil:
			vs := e.m.Keys[key]
			rev = int64(vs[r.Intn(len(vs))].Rev)
		case y < 9:
			rev = 0
		default:
			rev = int64(n.Start + 1 + uint64(r.Intn(int(n.Dealt()-n.Start)+1)))
		}
		val := []byte(fmt.Sprintf("v%d", i))
		switch x := r.Intn(100); {
		case x < 15:
			e.txn("create", key, val, 0)
		case x < 40:
			e.txn("update", key, val, rev)
		case x < 52:
			e.txn("gdelete", key, nil, rev)
		case x < 60:
			e.txn("udelete", key, nil, 0)
		case x < 85:
			e.rangeReq(r)
		default:
			keyB := keys[r.Intn(len(keys))]
			for keyB == key {
				keyB = keys[r.Intn(len(keys))]
			}
			name, req := e.unsupported(r, key, keyB)
			before := e.fullState()
			evBefore := len(e.fw.snapshot())
			dealtBefore := n.Dealt()
			resp, err := e.api.Txn(context.Background(), req)
			e.nUnsup++
			n.WaitCommitted(n.Dealt(), 10*time.Second)
			after := e.fullState()
			e.hist = append(e.hist, fmt.Sprintf("unsupported[%s] -> resp=%v err=%v", name, resp != nil, err))
			e.vec = append(e.vec, 'u')
			if before != after {
				c.Violatef("C16 unsupported-shape-executed-as-something-else shape="+name, e.wit(), "the unsupported transaction %s changed the store: before %s, after %s (answer: succeeded=%v err=%v)", name, before, after, resp.GetSucceeded(), err)
				// resynchronise the model from the store so that later steps stay meaningful
				e.resync()
			} else if err == nil {
				c.Violatef("C16 unsupported-shape-not-rejected shape="+name, e.wit(), "the unsupported transaction %s was answered without an error (succeeded=%v, %d revisions consumed)", name, resp.GetSucceeded(), n.Dealt()-dealtBefore)
			}
			_ = evBefore
		}
	}
	// sentinel + watch comparison
	sentKey := harness.Prefix + "/zz-sentinel"
	e.txn("create", sentKey, []byte("s"), 0)
	var sentRev uint64
	if l := e.m.Live(sentKey); l != nil {
		sentRev = l.Rev
	}
	var got []*mvccpb.Event
	deadline := time.Now().Add(60 * time.Second)
	for {
		got = got[:0]
		canceled := false
		reason := ""
		for _, m := range e.fw.snapshot() {
			if m.Canceled {
				canceled = true
				reason = m.CancelReason
			}
			got = append(got, m.Events...)
		}
		if canceled || (len(got) > 0 && uint64(got[len(got)-1].Kv.ModRevision) >= sentRev) {
			if canceled {
				c.Inconclusive("the etcd watch was cancelled by the server: " + reason)
				return
			}
			break
		}
		if time.Now().After(deadline) {
			c.Violatef("C16 watch-did-not-deliver-through-sentinel", e.wit(), "the prefix watch delivered %d events and never reached the sentinel at revision %d", len(got), sentRev)
			return
		}
		time.Sleep(200 * time.Microsecond)
	}
	sort.SliceStable(e.truth, func(i, j int) bool { return e.truth[i].Rev < e.truth[j].Rev })
	if len(got) != len(e.truth) {
		var gs []string
		for _, g := range got {
			gs = append(gs, fmt.Sprintf("%s %q@%d", g.Type, g.Kv.Key, g.Kv.ModRevision))
		}
		c.Violatef("C16 watch-events-differ-from-etcd", e.wit(), "the prefix watch delivered %d events, the history has %d changes: %v", len(got), len(e.truth), gs)
	} else {
		for i, g := range got {
			t := e.truth[i]
			isDel := t.Type == proto.Event_DELETE
			ok := string(g.Kv.Key) == t.Key && uint64(g.Kv.ModRevision) == t.Rev
			if isDel {
				ok = ok && g.Type == mvccpb.DELETE && g.PrevKv != nil && bytes.Equal(g.PrevKv.Value, t.Val) && uint64(g.PrevKv.ModRevision) == t.PrevRev && string(g.PrevKv.Key) == t.Key
			} else {
				ok = ok && g.Type == mvccpb.PUT && bytes.Equal(g.Kv.Value, t.Val)
			}
			if !ok {
				c.Violatef("C16 watch-events-differ-from-etcd", e.wit(), "event #%d is %s %q=%q@%d prev=%v; etcd semantics give %s", i, g.Type, g.Kv.Key, g.Kv.Value, g.Kv.ModRevision, g.PrevKv, tStr(t))
				break
			}
		}
	}
	if c.Index%3 == 1 && c.R.Verdict != "violated" {
		// an unlimited range read during which one iterator answers a single transient error at a PRNG-drawn step (the
		// scanner retries that partition after its 1 s backoff): the answer is an error, or exactly what etcd would give
		encS, encE := coderC.EncodeObjectKey([]byte(full), 0), coderC.EncodeObjectKey(backend.PrefixEnd([]byte(full)), 0)
		recs, derr := harness.Dump(eng.KV, encS, encE)
		if derr == nil && len(recs) > 2 {
			cur := n.Committed()
			want := e.m.Snapshot(full, string(backend.PrefixEnd([]byte(full))), cur)
			N := 1 + r.Intn(len(recs))
			var fired int32
			iw.IterFault = func(start, end []byte, k int) error {
				if k == N && atomic.CompareAndSwapInt32(&fired, 0, 1) {
					return errors.New("injected transient iterator error")
				}
				return nil
			}
			resp, err := e.api.Range(context.Background(), &etcdserverpb.RangeRequest{Key: []byte(full), RangeEnd: backend.PrefixEnd([]byte(full)), Revision: int64(cur)})
			iw.IterFault = nil
			e.hist = append(e.hist, fmt.Sprintf("range(whole prefix,rev=%d) with one transient iterator error at step %d -> %s count=%d err=%v", cur, N, kvDesc(resp.GetKvs()), resp.GetCount(), err))
			if err == nil {
				ok := len(resp.Kvs) == len(want) && resp.Count == int64(len(want))
				for i := 0; ok && i < len(want); i++ {
					ok = want[i].Key == string(resp.Kvs[i].Key) && bytes.Equal(want[i].Val, resp.Kvs[i].Value) && int64(want[i].Rev) == resp.Kvs[i].ModRevision
				}
				if !ok {
					c.Violatef("C16 range-read-differs-from-etcd after-transient-iterator-error", e.wit(), "Range(whole prefix,rev=%d) retried a partition after a transient iterator error and answered %s count=%d; etcd semantics give %s", cur, kvDesc(resp.Kvs), resp.Count, mkvStr(want))
				} else if atomic.LoadInt32(&fired) == 1 {
					c.Stat("ranges_compared_after_a_transient_iterator_error", 1)
				}
			} else {
				c.Stat("ranges_failed_by_the_transient_iterator_error", 1)
			}
		}
		// the same for the point read behind a single-key Range and behind a guarded update whose expectation is stale:
		// the first step of the next iterator fails once. An error is an answer; "the key does not exist" is not.
		if live := e.m.SortedKeys(); len(live) > 0 && c.R.Verdict != "violated" {
			key := live[r.Intn(len(live))]
			want := e.m.At(key, n.Committed())
			arm := func() *int32 {
				var fired int32
				iw.IterFault = func(start, end []byte, k int) error {
					if k == 0 && atomic.CompareAndSwapInt32(&fired, 0, 1) {
						return errors.New("injected transient iterator error")
					}
					return nil
				}
				return &fired
			}
			f1 := arm()
			resp, err := e.api.Range(context.Background(), &etcdserverpb.RangeRequest{Key: []byte(key)})
			iw.IterFault = nil
			e.hist = append(e.hist, fmt.Sprintf("get(%q) with a transient error on the first iterator step -> %s err=%v", key, kvDesc(resp.GetKvs()), err))
			if err == nil && want != nil && atomic.LoadInt32(f1) == 1 {
				if len(resp.Kvs) != 1 || !bytes.Equal(resp.Kvs[0].Value, want.Val) || resp.Kvs[0].ModRevision != int64(want.Rev) {
					c.Violatef("C16 point-read-differs-from-etcd after-transient-iterator-error", e.wit(), "Range(%q) whose point read met a transient iterator error answered %s without an error; etcd semantics give %s", key, kvDesc(resp.Kvs), verS(want))
				}
			}
			if want != nil && c.R.Verdict != "violated" {
				f2 := arm()
				tr, terr := e.api.Txn(context.Background(), etcdUpdate(key, []byte("never-written"), int64(want.Rev)+1000))
				iw.IterFault = nil
				kvs, _ := rangeKvs(tr)
				e.hist = append(e.hist, fmt.Sprintf("update(%q, expecting %d: stale) with a transient error on the first iterator step -> succeeded=%v %s err=%v", key, want.Rev+1000, tr.GetSucceeded(), kvDesc(kvs), terr))
				if terr == nil && atomic.LoadInt32(f2) == 1 {
					if tr.Succeeded || len(kvs) != 1 || !bytes.Equal(kvs[0].Value, want.Val) || kvs[0].ModRevision != int64(want.Rev) {
						c.Violatef("C16 failed-compare-differs-from-etcd after-transient-iterator-error", e.wit(), "a guarded update of %q with a stale expectation whose read met a transient iterator error answered succeeded=%v kvs=%s without an error; etcd semantics give succeeded=false and %s", key, tr.Succeeded, kvDesc(kvs), verS(want))
					}
				}
				c.Stat("point_reads_with_a_transient_iterator_error", 2)
			}
		}
	}
	c.Stat("etcd_requests", int64(len(e.hist)))
	c.Stat("unsupported_shapes_sent", int64(e.nUnsup))
	c.Stat("watch_events_compared", int64(len(got)))
	c.AddSet("engines", kind)
	c.Fingerprint(e.nFailKv > 0 && e.nZero > 0 && e.nCut > 0 && e.nUnsup >= 3, kind, string(e.vec))
	if c.Index < 4 {
		h := e.hist
		if len(h) > 25 {
			h = h[:25]
		}
		c.R.Sample = map[string]interface{}{"engine": kind, "first_requests": h}
	}
	_ = strings.HasPrefix
}

// resync rebuilds the model's latest state from the store after an unexpected change.
func (e *etcdRig) resync() {
	full := harness.Prefix + "/"
	l, err := e.n.List(full, string(backend.PrefixEnd([]byte(full))), 0, 0)
	if err != nil {
		return
	}
	seen := map[string]bool{}
	for _, kv := range l.Kvs {
		k := string(kv.Key)
		seen[k] = true
		if lv := e.m.Live(k); lv == nil || lv.Rev != kv.Revision {
			e.m.Put(k, kv.Revision, kv.Value)
			e.truth = append(e.truth, truthEv{Rev: kv.Revision, Key: k, Val: kv.Value})
		}
	}
	for _, k := range e.m.SortedKeys() {
		if lv := e.m.Live(k); lv != nil && !seen[k] {
			e.m.Del(k, e.n.Committed())
			e.truth = append(e.truth, truthEv{Rev: e.n.Committed(), Key: k, Val: lv.Val, PrevRev: lv.Rev, Type: proto.Event_DELETE})
		}
	}
}
