package props

import (
	"bytes"
	"context"
	"errors"
	"fmt"
	"io"
	"sort"
	"strings"
	"sync"
	"sync/atomic"

	"github.com/kubewharf/kubebrain/pkg/storage"

	"verif/internal/harness"
)

// C11 — every storage adapter honours the engine contract (pkg/storage/interface.go).
// Lock-step differential run of PRNG operation sequences against a sorted-map reference.

var c11Engines = []string{"memkv", "badger", "tikv", "memkv+m", "badger+m", "tikv+m"}

func init() {
	Registry["C11"] = &Prop{
		Plan: func(tier string) Plan {
			return Plan{Level: "exploration", NCases: pick(tier, 720, 60000), Batch: 10, CaseTimeout: 60,
				Rule: "one case = one PRNG sequence of 20-200 steps on one engine (memkv / Badger / TiKV mock, each also behind the metrics wrapper with the real Prometheus client): " +
					"batches of 1-4 ops from {put-if-absent, CAS, put, del, delete-current} on distinct keys (every third case: possibly the same key twice, e.g. delete then a condition on it) incl. several conditions per batch and conditions on missing keys; Get; Del; DelCurrent; forward/backward/limited Iter with bounds on/between/outside keys and writes slipped in between creating and draining the iterator; every 5th case instead runs 8 concurrent readers (iterators with non-stored bounds, gets of missing keys) over an unchanging store, whose results must be exact, and another every 5th runs 6 concurrent conditional writers released together (put-if-absent on a fresh key: exactly one commits; compare-and-swap increments: counter == acknowledged successes). " +
					"oracle = sorted-map reference in lock-step (all-or-nothing batches, failure <=> some condition false and then errors.Is(err, ErrCASFailed), iterator output = reference slice of the snapshot at creation, or a prefix of length >= limit). " +
					"non-trivial = sequence with >=1 failed multi-op batch, >=1 backward and >=1 limited iteration and >=1 write slipped under an open iterator; distinct by (engine, step-kind/outcome vector)",
				Assumptions: []string{"TTL argument is always 0", "in two thirds of the cases the ops of one batch touch distinct keys; in the others a batch may name a key twice and is judged by read-your-own-batch semantics (a condition sees what earlier operations of the same batch did), which the interface comment does not spell out but all three engines implement",
					"a key rewritten with an identical value under an open iterator is not generated (delete-if-value-equal and delete-if-version-equal may differ there, both allowed)"},
				MinConcl: pick(tier, 600, 50000)}
		},
		Name: func(c *harness.Case) string { return "kv-" + c11Engines[c.Index%len(c11Engines)] },
		Run:  runC11,
	}
}

type refKV struct {
	m map[string][]byte
}

func (r *refKV) sorted() []string {
	ks := make([]string, 0, len(r.m))
	for k := range r.m {
		ks = append(ks, k)
	}
	sort.Strings(ks)
	return ks
}

// slice returns the keys of the interval in iteration order: forward [start,end), backward (end,start] descending.
func (r *refKV) slice(start, end string) []string {
	var out []string
	ks := r.sorted()
	if start < end {
		for _, k := range ks {
			if k >= start && k < end {
				out = append(out, k)
			}
		}
		return out
	}
	for i := len(ks) - 1; i >= 0; i-- {
		if ks[i] <= start && ks[i] > end {
			out = append(out, ks[i])
		}
	}
	return out
}

// runC11Readers: concurrent readers (iterators whose bounds are not stored keys, gets of missing keys) over a
// store that does not change: every result must be exact, readers must not see each other's bookkeeping.
func runC11Readers(c *harness.Case, kind string) {
	r := c.Rng
	eng, err := harness.NewEngine(kind)
	if err != nil {
		c.Inconclusive(err.Error())
		return
	}
	defer eng.Close()
	kv := eng.KV
	if harness.IsMetricsKind(kind) {
		kv = harness.WithMetrics(kv, harness.NewRecMetrics(true))
	}
	ctx := context.Background()
	ref := &refKV{m: map[string][]byte{}}
	for i := 0; i < 40; i++ {
		k := fmt.Sprintf("k%03d", i*2)
		v := []byte(fmt.Sprintf("v%d", i))
		b := kv.BeginBatchWrite()
		b.Put([]byte(k), v, 0)
		if err := b.Commit(ctx); err != nil {
			c.Inconclusive("put failed: " + err.Error())
			return
		}
		ref.m[k] = v
	}
	var wg sync.WaitGroup
	var mu sync.Mutex
	bad := ""
	nIter, nGet := int64(0), int64(0)
	for g := 0; g < 8; g++ {
		wg.Add(1)
		rr := newRand(r.Int63())
		go func() {
			defer wg.Done()
			for i := 0; i < 300; i++ {
				mu.Lock()
				stop := bad != ""
				mu.Unlock()
				if stop {
					return
				}
				a, b := fmt.Sprintf("k%03d", rr.Intn(82)), fmt.Sprintf("k%03d", rr.Intn(82)) // odd numbers are never stored
				if a == b {
					continue
				}
				if rr.Intn(3) == 0 {
					got, err := kv.Get(ctx, []byte(a))
					atomic.AddInt64(&nGet, 1)
					want, has := ref.m[a]
					if (has && (err != nil || !bytes.Equal(got, want))) || (!has && err != storage.ErrKeyNotFound) {
						mu.Lock()
						bad = fmt.Sprintf("concurrent Get(%q) = (%q,%v); the store holds %q (present=%v) and nobody writes", a, got, err, want, has)
						mu.Unlock()
						return
					}
					continue
				}
				it, err := kv.Iter(ctx, []byte(a), []byte(b), 0, 0)
				if err != nil {
					continue
				}
				var got []string
				for {
					if err := it.Next(ctx); err != nil {
						break
					}
					k := string(it.Key())
					if wv, ok := ref.m[k]; !ok || !bytes.Equal(wv, it.Val()) {
						mu.Lock()
						bad = fmt.Sprintf("concurrent Iter(%q,%q) yielded %q=%q which was never written (store value %q)", a, b, k, it.Val(), wv)
						mu.Unlock()
					}
					got = append(got, k)
				}
				it.Close()
				atomic.AddInt64(&nIter, 1)
				if want := ref.slice(a, b); !eqStr(got, want) {
					mu.Lock()
					if bad == "" {
						bad = fmt.Sprintf("concurrent Iter(%q,%q) yielded %q; the unchanging store holds %q in that interval", a, b, got, want)
					}
					mu.Unlock()
					return
				}
			}
		}()
	}
	wg.Wait()
	if bad != "" {
		c.Violatef("C11 concurrent-readers-disturb-each-other engine="+eng.Kind, map[string]interface{}{"engine": kind}, "%s", bad)
	}
	c.Stat("concurrent_iterations", nIter)
	c.Stat("concurrent_gets", nGet)
	c.AddSet("engines", kind)
	c.Fingerprint(true, "readers", kind, c.Index)
}

// runC11Writers: concurrent conditional writers. Per round all goroutines are released together on one fresh key
// (put-if-absent: exactly one may succeed) and on one counter key (compare-and-swap increment: the final value
// must equal the number of successes, every success saw the value it replaced).
func runC11Writers(c *harness.Case, kind string) {
	eng, err := harness.NewEngine(kind)
	if err != nil {
		c.Inconclusive(err.Error())
		return
	}
	defer eng.Close()
	kv := eng.KV
	if harness.IsMetricsKind(kind) {
		kv = harness.WithMetrics(kv, harness.NewRecMetrics(true))
	}
	ctx := context.Background()
	const workers = 6
	rounds := 400
	if eng.Kind != "memkv" {
		rounds = 120
	}
	b0 := kv.BeginBatchWrite()
	b0.Put([]byte("counter"), []byte("0"), 0)
	if err := b0.Commit(ctx); err != nil {
		c.Inconclusive("put failed")
		return
	}
	var casOK int64
	otherErrs := int64(0)
	for round := 0; round < rounds; round++ {
		key := []byte(fmt.Sprintf("fresh-%04d", round))
		var wg sync.WaitGroup
		start := make(chan struct{})
		var pineOK int64
		for g := 0; g < workers; g++ {
			wg.Add(1)
			go func(g int) {
				defer wg.Done()
				<-start
				b := kv.BeginBatchWrite()
				b.PutIfNotExist(key, []byte(fmt.Sprintf("w%d", g)), 0)
				err := b.Commit(ctx)
				switch {
				case err == nil:
					atomic.AddInt64(&pineOK, 1)
				case !errors.Is(err, storage.ErrCASFailed):
					atomic.AddInt64(&otherErrs, 1) // an engine may abort a conflicting transaction with its own error
				}
				// compare-and-swap increment of the shared counter
				cur, gerr := kv.Get(ctx, []byte("counter"))
				if gerr != nil {
					return
				}
				var n int
				fmt.Sscanf(string(cur), "%d", &n)
				b2 := kv.BeginBatchWrite()
				b2.CAS([]byte("counter"), []byte(fmt.Sprintf("%d", n+1)), cur, 0)
				if b2.Commit(ctx) == nil {
					atomic.AddInt64(&casOK, 1)
				}
			}(g)
		}
		close(start)
		wg.Wait()
		if pineOK > 1 {
			c.Violatef("C11 put-if-absent-succeeded-for-several-concurrent-writers engine="+eng.Kind, map[string]interface{}{"engine": kind, "round": round},
				"round %d: %d of %d concurrent put-if-absent batches on the fresh key %q committed", round, pineOK, workers, key)
			return
		}
		if pineOK == 0 && atomic.LoadInt64(&otherErrs) == 0 {
			c.Violatef("C11 put-if-absent-failed-for-every-concurrent-writer engine="+eng.Kind, map[string]interface{}{"engine": kind, "round": round},
				"round %d: none of %d concurrent put-if-absent batches on the fresh key %q committed and none reported an engine error", round, workers, key)
			return
		}
	}
	cur, _ := kv.Get(ctx, []byte("counter"))
	var final int64
	fmt.Sscanf(string(cur), "%d", &final)
	if final != atomic.LoadInt64(&casOK) {
		c.Violatef("C11 compare-and-swap-lost-an-update engine="+eng.Kind, map[string]interface{}{"engine": kind},
			"%d compare-and-swap increments were acknowledged but the counter reads %d: two batches succeeded from the same observed value", casOK, final)
	}
	c.Stat("concurrent_writer_rounds", int64(rounds))
	c.Stat("cas_increments_acknowledged", casOK)
	c.AddSet("engines", kind)
	c.Fingerprint(true, "writers", kind, c.Index)
}

// runC11LongIter: an iterator over 600-900 keys (more than one page of any engine's client) opened at "now"; after 50
// keys were taken, ONE atomic batch changes a key already taken, a key in the middle and a key near the end. What
// the iterator goes on to yield must still be the store as it was when the iterator was opened.
func runC11LongIter(c *harness.Case, kind string) {
	r := c.Rng
	eng, err := harness.NewEngine(kind)
	if err != nil {
		c.Inconclusive(err.Error())
		return
	}
	defer eng.Close()
	kv := eng.KV
	if harness.IsMetricsKind(kind) {
		kv = harness.WithMetrics(kv, harness.NewRecMetrics(true))
	}
	ctx := context.Background()
	nKeys := 600 + r.Intn(300)
	key := func(i int) string { return fmt.Sprintf("long/%05d", i) }
	for base := 0; base < nKeys; base += 100 {
		b := kv.BeginBatchWrite()
		for i := base; i < base+100 && i < nKeys; i++ {
			b.Put([]byte(key(i)), []byte("old"), 0)
		}
		if err := b.Commit(ctx); err != nil {
			c.Inconclusive("put failed: " + err.Error())
			return
		}
	}
	backward := r.Intn(2) == 0
	start, end := []byte("long/"), []byte("long0")
	if backward {
		start, end = []byte("long/99999"), []byte("long/")
	}
	it, err := kv.Iter(ctx, start, end, 0, 0)
	if err != nil {
		c.Inconclusive("iter: " + err.Error())
		return
	}
	defer it.Close()
	var got []string
	newAt := map[string]bool{}
	step := func() bool {
		if err := it.Next(ctx); err != nil {
			return false
		}
		got = append(got, string(it.Key()))
		if string(it.Val()) != "old" {
			newAt[string(it.Key())] = true
		}
		return true
	}
	for i := 0; i < 50 && step(); i++ {
	}
	taken, middle, far := key(10), key(nKeys/2), key(nKeys-10)
	if backward {
		taken, far = key(nKeys-10), key(10)
	}
	b := kv.BeginBatchWrite()
	for _, k := range []string{taken, middle, far} {
		b.Put([]byte(k), []byte("new"), 0)
	}
	if err := b.Commit(ctx); err != nil {
		c.Inconclusive("batch failed: " + err.Error())
		return
	}
	for step() {
	}
	wit := map[string]interface{}{"engine": kind, "keys": nKeys, "backward": backward, "changed_in_one_batch_after_50_steps": []string{taken, middle, far}, "yielded": len(got)}
	if len(got) != nKeys {
		c.Violatef("C11 iterator-differs-from-reference long-iteration engine="+eng.Kind, wit, "an iterator over %d keys opened before a batch yielded %d keys", nKeys, len(got))
		return
	}
	if len(newAt) > 0 {
		var ks []string
		for k := range newAt {
			ks = append(ks, k)
		}
		sort.Strings(ks)
		c.Violatef("C11 iterator-not-from-one-snapshot long-iteration engine="+eng.Kind, wit, "the iterator was opened, 50 keys were taken (all as written before), then one batch changed %q, %q and %q; the iterator went on to yield the new value for %v - neither the store before the batch nor the store after it", taken, middle, far, ks)
		return
	}
	c.Stat("long_iterations_across_a_concurrent_batch", 1)
	c.AddSet("engines", kind)
	c.Fingerprint(true, "long-iter", kind, backward, nKeys)
}

func runC11(c *harness.Case) {
	r := c.Rng
	kind := c11Engines[c.Index%len(c11Engines)]
	if (c.Index/len(c11Engines))%20 == 7 {
		runC11LongIter(c, kind)
		return
	}
	switch (c.Index / len(c11Engines)) % 5 {
	case 4:
		runC11Readers(c, kind)
		return
	case 3:
		runC11Writers(c, kind)
		return
	}
	eng, err := harness.NewEngine(kind)
	if err != nil {
		c.Inconclusive(err.Error())
		return
	}
	defer eng.Close()
	kv := eng.KV
	if harness.IsMetricsKind(kind) {
		kv = harness.WithMetrics(kv, harness.NewRecMetrics(true))
	}
	ctx := context.Background()
	ref := &refKV{m: map[string][]byte{}}
	// key universe: stored keys are drawn from `univ`; bounds also from `between`
	var univ, bounds []string
	for i := 0; i < 12; i++ {
		k := fmt.Sprintf("k%c%c", 'a'+r.Intn(4), 'a'+r.Intn(6))
		if r.Intn(4) == 0 {
			k += string([]byte{byte(0x30 + r.Intn(0xcf))})
		}
		dupe := false
		for _, u := range univ {
			if u == k {
				dupe = true
			}
		}
		if dupe {
			continue
		}
		univ = append(univ, k)
		bounds = append(bounds, k, k+"\x00", k[:len(k)-1])
	}
	bounds = append(bounds, "", "j", "k", "l", "kz", "ka", "\xff\xff")
	var hist []string
	seqVal := 0
	// zero-length values are used on the engines that accept them (TiKV refuses to store one): a key holding an empty
	// value exists like any other
	allowEmpty := false
	if strings.HasPrefix(eng.Kind, "memkv") || strings.HasPrefix(eng.Kind, "badger") {
		pb := kv.BeginBatchWrite()
		pb.Put([]byte("probe-empty"), []byte{}, 0)
		if pb.Commit(ctx) == nil {
			if v, gerr := kv.Get(ctx, []byte("probe-empty")); gerr == nil && len(v) == 0 {
				allowEmpty = true
			}
			_ = kv.Del(ctx, []byte("probe-empty"))
		}
	}
	newVal := func() []byte {
		seqVal++
		if allowEmpty && r.Intn(10) == 0 {
			return []byte{}
		}
		return []byte(fmt.Sprintf("v%d", seqVal))
	}
	// a value certainly different from what the key holds (for "the key changed under the iterator")
	otherVal := func() []byte { seqVal++; return []byte(fmt.Sprintf("v%d", seqVal)) }
	wit := func() interface{} {
		h := hist
		if len(h) > 250 {
			h = h[len(h)-250:]
		}
		return map[string]interface{}{"engine": kind, "steps": h}
	}
	var vec []byte
	nFailedMulti, nBack, nLim, nSlip, nInterloped := 0, 0, 0, 0, 0

	// positionedIter returns an iterator positioned on key k (which must exist).
	positioned := func(k string) (storage.Iter, bool) {
		it, err := kv.Iter(ctx, []byte(k), []byte(k+"\x00"), 0, 0)
		if err != nil {
			return nil, false
		}
		if err := it.Next(ctx); err != nil || string(it.Key()) != k {
			it.Close()
			return nil, false
		}
		return it, true
	}
	checkAll := func(step string) bool {
		for _, k := range univ {
			got, err := kv.Get(ctx, []byte(k))
			want, has := ref.m[k]
			if has {
				if err != nil || !bytes.Equal(got, want) {
					c.Violatef("C11 get-differs-from-reference engine="+eng.Kind, wit(), "after %s: Get(%q) = (%q,%v); reference holds %q", step, k, got, err, want)
					return false
				}
			} else if err != storage.ErrKeyNotFound {
				c.Violatef("C11 get-of-missing-key engine="+eng.Kind, wit(), "after %s: Get(%q) = (%q,%v); reference says absent (ErrKeyNotFound expected)", step, k, got, err)
				return false
			}
		}
		return true
	}

	sameKeyOps := (c.Index/len(c11Engines))%3 == 1 // a third of the cases, on every engine: a batch may name a key twice (delete, then a condition on it, ...)
	nSameKey := 0
	steps := 20 + r.Intn(180)
	for s := 0; s < steps; s++ {
		switch x := r.Intn(100); {
		case x < 50: // batch
			nOps := 1 + r.Intn(4)
			if nOps > len(univ) {
				nOps = len(univ)
			}
			perm := r.Perm(len(univ))
			var adds []func(b storage.BatchWrite) // memkv locks the store in BeginBatchWrite: build the batch only once everything else is prepared
			type pend struct {
				key string
				val []byte
				del bool
			}
			var pends []pend
			condOK := true
			desc := "batch{"
			var iters []storage.Iter
			// keys already touched by this batch, as the batch itself has to see them (an engine's batch reads its own
			// pending operations: memkv's cache, Badger's and TiKV's transaction buffers)
			type ov struct {
				val []byte
				has bool
			}
			overlay := map[string]ov{}
			lastKey := ""
			batchReuses := false
			for i := 0; i < nOps; i++ {
				k := univ[perm[i]]
				reuse := sameKeyOps && i > 0 && r.Intn(4) == 0
				if reuse {
					k = lastKey
				}
				lastKey = k
				cur, has := ref.m[k]
				if o, ok := overlay[k]; ok {
					cur, has = o.val, o.has
				}
				y := r.Intn(10)
				if reuse && y >= 9 {
					y = 3 + r.Intn(3) // no delete-current on a key the batch has already changed: a condition instead
				}
				if reuse {
					nSameKey++
					batchReuses = true
				}
				switch {
				case y < 3:
					v := newVal()
					adds = append(adds, func(b storage.BatchWrite) { b.PutIfNotExist([]byte(k), v, 0) })
					desc += fmt.Sprintf(" pine(%q)", k)
					if has {
						condOK = false
					}
					pends = append(pends, pend{key: k, val: v})
					overlay[k] = ov{v, true}
				case y < 6:
					v := newVal()
					old := cur
					if !has || r.Intn(3) == 0 {
						old = []byte("stale")
					}
					adds = append(adds, func(b storage.BatchWrite) { b.CAS([]byte(k), v, old, 0) })
					desc += fmt.Sprintf(" cas(%q,old=%q)", k, old)
					if !has || !bytes.Equal(old, cur) {
						condOK = false
					}
					pends = append(pends, pend{key: k, val: v})
					overlay[k] = ov{v, true}
				case y < 8:
					v := newVal()
					adds = append(adds, func(b storage.BatchWrite) { b.Put([]byte(k), v, 0) })
					desc += fmt.Sprintf(" put(%q)", k)
					pends = append(pends, pend{key: k, val: v})
					overlay[k] = ov{v, true}
				case y < 9:
					adds = append(adds, func(b storage.BatchWrite) { b.Del([]byte(k)) })
					desc += fmt.Sprintf(" del(%q)", k)
					pends = append(pends, pend{key: k, del: true})
					overlay[k] = ov{nil, false}
				default:
					if !has {
						v := newVal()
						adds = append(adds, func(b storage.BatchWrite) { b.Put([]byte(k), v, 0) })
						desc += fmt.Sprintf(" put(%q)", k)
						pends = append(pends, pend{key: k, val: v})
						overlay[k] = ov{v, true}
						break
					}
					it, ok := positioned(k)
					if !ok {
						c.Violatef("C11 iterator-cannot-position engine="+eng.Kind, wit(), "Iter(%q,%q) did not yield the existing key", k, k+"\x00")
						return
					}
					iters = append(iters, it)
					changed := r.Intn(3) == 0
					if changed {
						// change the key after the iterator read it: delete-current must fail
						v := otherVal()
						bb := kv.BeginBatchWrite()
						bb.Put([]byte(k), v, 0)
						if err := bb.Commit(ctx); err != nil {
							c.Violatef("C11 plain-put-failed engine="+eng.Kind, wit(), "Put(%q) error %v", k, err)
							return
						}
						ref.m[k] = v
						condOK = false
					}
					adds = append(adds, func(b storage.BatchWrite) { b.DelCurrent(it) })
					desc += fmt.Sprintf(" delcur(%q,changed=%v)", k, changed)
					pends = append(pends, pend{key: k, del: true})
					overlay[k] = ov{nil, false}
				}
			}
			b := kv.BeginBatchWrite()
			for _, add := range adds {
				add(b)
			}
			if strings.HasPrefix(eng.Kind, "tikv") && len(iters) == 0 && !batchReuses && r.Intn(3) == 0 {
				// another writer commits to a key this batch writes unconditionally, between the batch's begin and its
				// commit (only where a batch holds no engine lock while it is open): the batch is still all-or-nothing and
				// comes after that write
				var unc []string
				for _, p := range pends {
					unc = append(unc, p.key)
				}
				for _, k := range unc {
					if !strings.Contains(desc, fmt.Sprintf(" put(%q)", k)) && !strings.Contains(desc, fmt.Sprintf(" del(%q)", k)) {
						continue
					}
					v := newVal()
					bb := kv.BeginBatchWrite()
					bb.Put([]byte(k), v, 0)
					if ierr := bb.Commit(ctx); ierr != nil {
						c.Violatef("C11 plain-put-failed engine="+eng.Kind, wit(), "Put(%q) error %v", k, ierr)
						return
					}
					ref.m[k] = v
					desc += fmt.Sprintf(" [another writer put(%q) before the commit]", k)
					nInterloped++
					break
				}
			}
			err := b.Commit(ctx)
			for _, it := range iters {
				it.Close()
			}
			desc += fmt.Sprintf(" } -> %v", err)
			hist = append(hist, desc)
			if condOK {
				if err != nil {
					c.Violatef("C11 batch-failed-though-conditions-hold engine="+eng.Kind, wit(), "%s: every condition holds in the reference", desc)
					return
				}
				for _, p := range pends {
					if p.del {
						delete(ref.m, p.key)
					} else {
						ref.m[p.key] = p.val
					}
				}
				vec = append(vec, 'B')
			} else {
				if err == nil {
					c.Violatef("C11 batch-committed-though-a-condition-is-false engine="+eng.Kind, wit(), "%s: a condition is false in the reference but the batch committed", desc)
					return
				}
				if !errors.Is(err, storage.ErrCASFailed) {
					c.Violatef("C11 failed-condition-reported-as-other-error engine="+eng.Kind, wit(), "%s: a condition is false; the adapter answered %q which is not a failed-condition error", desc, err.Error())
					// the batch must still have had no effect: fall through to the state check
				}
				if len(pends) > 1 {
					nFailedMulti++
				}
				vec = append(vec, 'b')
			}
			if !checkAll(desc) {
				return
			}
		case x < 58: // store-level Del
			k := univ[r.Intn(len(univ))]
			err := kv.Del(ctx, []byte(k))
			hist = append(hist, fmt.Sprintf("Del(%q) -> %v", k, err))
			if err != nil {
				c.Violatef("C11 del-error engine="+eng.Kind, wit(), "Del(%q) error %v", k, err)
				return
			}
			delete(ref.m, k)
			vec = append(vec, 'D')
			if !checkAll("Del") {
				return
			}
		case x < 66: // store-level DelCurrent
			ks := ref.sorted()
			if len(ks) == 0 {
				continue
			}
			k := ks[r.Intn(len(ks))]
			it, ok := positioned(k)
			if !ok {
				c.Violatef("C11 iterator-cannot-position engine="+eng.Kind, wit(), "Iter(%q,%q) did not yield the existing key", k, k+"\x00")
				return
			}
			mode := r.Intn(3)
			switch mode {
			case 1:
				v := otherVal()
				bb := kv.BeginBatchWrite()
				bb.Put([]byte(k), v, 0)
				bb.Commit(ctx)
				ref.m[k] = v
			case 2:
				kv.Del(ctx, []byte(k))
				delete(ref.m, k)
			}
			err := kv.DelCurrent(ctx, it)
			it.Close()
			hist = append(hist, fmt.Sprintf("DelCurrent(%q, mode=%d) -> %v", k, mode, err))
			if mode == 0 {
				if err != nil {
					c.Violatef("C11 delcurrent-failed-on-unchanged-key engine="+eng.Kind, wit(), "DelCurrent(%q) on an unchanged key: %v", k, err)
					return
				}
				delete(ref.m, k)
			} else {
				if err == nil {
					c.Violatef("C11 delcurrent-deleted-a-changed-key engine="+eng.Kind, wit(), "DelCurrent(%q) succeeded although the key changed after the iterator read it (mode %d)", k, mode)
					return
				}
				if !errors.Is(err, storage.ErrCASFailed) {
					c.Violatef("C11 failed-condition-reported-as-other-error engine="+eng.Kind, wit(), "DelCurrent(%q) on a changed key answered %q which is not a failed-condition error", k, err.Error())
				}
			}
			vec = append(vec, 'C')
			if !checkAll("DelCurrent") {
				return
			}
		default: // iterate
			a, b := bounds[r.Intn(len(bounds))], bounds[r.Intn(len(bounds))]
			if a == b || a == "" && b == "" {
				continue
			}
			if a == "" || b == "" {
				// empty bounds are not part of the contract used by the backend
				continue
			}
			limit := uint64(0)
			if r.Intn(3) == 0 {
				limit = uint64(1 + r.Intn(4))
				nLim++
			}
			back := a > b
			if back {
				nBack++
			}
			want := ref.slice(a, b)
			wantVals := map[string][]byte{}
			for _, k := range want {
				wantVals[k] = ref.m[k]
			}
			it, err := kv.Iter(ctx, []byte(a), []byte(b), 0, limit)
			if err != nil {
				c.Violatef("C11 iter-create-error engine="+eng.Kind, wit(), "Iter(%q,%q,limit=%d) error %v", a, b, limit, err)
				return
			}
			// slip writes under the open iterator: they must not be visible to it
			slipped := ""
			if r.Intn(2) == 0 {
				nSlip++
				for i := 0; i < 1+r.Intn(3); i++ {
					k := univ[r.Intn(len(univ))]
					if r.Intn(3) == 0 {
						kv.Del(ctx, []byte(k))
						delete(ref.m, k)
						slipped += " del " + k
					} else {
						v := newVal()
						bb := kv.BeginBatchWrite()
						bb.Put([]byte(k), v, 0)
						bb.Commit(ctx)
						ref.m[k] = v
						slipped += " put " + k
					}
				}
			}
			var got []string
			bad := ""
			for {
				err := it.Next(ctx)
				if err == io.EOF {
					break
				}
				if err != nil {
					bad = "Next error " + err.Error()
					break
				}
				k := string(it.Key())
				v := it.Val()
				if wv, ok := wantVals[k]; ok && !bytes.Equal(wv, v) {
					bad = fmt.Sprintf("key %q has value %q, snapshot at creation held %q", k, v, wv)
				}
				got = append(got, k)
				if len(got) > len(want)+5 {
					break
				}
			}
			it.Close()
			desc := fmt.Sprintf("Iter(%q,%q,limit=%d)[slipped:%s] -> %q", a, b, limit, slipped, got)
			hist = append(hist, desc)
			ok := bad == ""
			if ok {
				if limit == 0 || len(want) <= int(limit) {
					ok = eqStr(got, want)
				} else {
					ok = len(got) >= int(limit) && len(got) <= len(want) && eqStr(got, want[:len(got)])
				}
			}
			if !ok {
				sig := "C11 iterator-differs-from-reference"
				if back {
					sig += " dir=backward"
				} else {
					sig += " dir=forward"
				}
				// narrow the common shapes
				if len(got) > 0 && !inInterval(got[0], a, b) {
					sig += " first-element-outside-interval"
				}
				c.Violatef(sig+" engine="+eng.Kind, wit(), "%s; reference snapshot slice is %q (%s)", desc, want, bad)
				return
			}
			if back {
				vec = append(vec, 'r')
			} else {
				vec = append(vec, 'f')
			}
		}
	}
	c.Stat("steps", int64(len(hist)))
	c.Stat("failed_multi_op_batches", int64(nFailedMulti))
	c.Stat("batches_overtaken_by_another_writer_between_begin_and_commit", int64(nInterloped))
	c.Stat("operations_on_a_key_the_same_batch_had_already_touched", int64(nSameKey))
	c.Stat("backward_iterations", int64(nBack))
	c.Stat("limited_iterations", int64(nLim))
	c.Stat("iterations_with_writes_slipped_under", int64(nSlip))
	c.AddSet("engines", kind)
	c.Fingerprint(nFailedMulti > 0 && nBack > 0 && nLim > 0 && nSlip > 0, kind, string(vec))
	if c.Index < 6 {
		h := hist
		if len(h) > 20 {
			h = h[:20]
		}
		c.R.Sample = map[string]interface{}{"engine": kind, "first_steps": h}
	}
}

func inInterval(k, a, b string) bool {
	if a < b {
		return k >= a && k < b
	}
	return k <= a && k > b
}

func eqStr(a, b []string) bool {
	if len(a) != len(b) {
		return false
	}
	for i := range a {
		if a[i] != b[i] {
			return false
		}
	}
	return true
}
