package props

import (
	"context"
	"fmt"
	"net"
	"time"

	pb "github.com/kubewharf/kubebrain-client/api/v2rpc"
	"go.etcd.io/etcd/api/v3/etcdserverpb"
	"google.golang.org/grpc"

	"github.com/kubewharf/kubebrain/pkg/backend"
	"github.com/kubewharf/kubebrain/pkg/endpoint"
	"github.com/kubewharf/kubebrain/pkg/storage"

	"verif/internal/harness"
)

// prodNode is a node exactly as cmd/option.Run starts it: backend + endpoint.NewEndpoint(...).Run, i.e. client port and
// peer port (each multiplexing gRPC and HTTP on one listener), server.NewServer with the real Campaign, the real peer
// service (revision syncer, and the etcd proxy when etcd compatibility is on), identity "127.0.0.1:<peer port>".
// Requests are sent to the client port by real gRPC clients.
type prodNode struct {
	n          *harness.Node
	cancel     func()
	clientAddr string
	peerAddr   string
	conn       *grpc.ClientConn
	etcdGRPC
	brainGRPC
}

func freePort() (int, error) {
	l, err := net.Listen("tcp", "127.0.0.1:0")
	if err != nil {
		return 0, err
	}
	defer l.Close()
	return l.Addr().(*net.TCPAddr).Port, nil
}

func newProdNode(c *harness.Case, kv storage.KvStorage, rm *harness.RecMetrics, track, etcdCompat bool, cacheSize int) (*prodNode, bool) {
	return newProdNodeSec(c, kv, rm, track, etcdCompat, cacheSize, &endpoint.SecurityConfig{})
}

// newProdNodeSec: peerSec configures the peer port (the revision syncer and the etcd proxy of the other nodes are its
// clients); the client port, which the harness talks to, stays without TLS.
func newProdNodeSec(c *harness.Case, kv storage.KvStorage, rm *harness.RecMetrics, track, etcdCompat bool, cacheSize int, peerSec *endpoint.SecurityConfig) (*prodNode, bool) {
	p1, e1 := freePort()
	p2, e2 := freePort()
	if e1 != nil || e2 != nil || p1 == p2 {
		c.Inconclusive("no free ports")
		return nil, false
	}
	pn := &prodNode{clientAddr: fmt.Sprintf("127.0.0.1:%d", p1), peerAddr: fmt.Sprintf("127.0.0.1:%d", p2)}
	pn.n = harness.NewNode(harness.NodeOpts{KV: kv, SkipInit: true, Metrics: rm, TrackNotify: track,
		Config: backend.Config{Identity: pn.peerAddr, EnableEtcdCompatibility: etcdCompat, WatchCacheSize: cacheSize}})
	// security configs as cmd/option builds them without certificates (non-nil, empty = insecure)
	ep := endpoint.NewEndpoint(pn.n.B, rm, &endpoint.Config{Port: p1, PeerPort: p2, EnableEtcdCompatibility: etcdCompat,
		ClientSecurityConfig: &endpoint.SecurityConfig{}, PeerSecurityConfig: peerSec})
	ctx, cancel := context.WithCancel(context.Background())
	pn.cancel = cancel
	go func() { _ = ep.Run(ctx) }()
	// wait for the client port
	deadline := time.Now().Add(10 * time.Second)
	for {
		cn, derr := net.DialTimeout("tcp", pn.clientAddr, 200*time.Millisecond)
		if derr == nil {
			cn.Close()
			break
		}
		if time.Now().After(deadline) {
			cancel()
			c.Inconclusive("endpoint did not open its client port: " + derr.Error())
			return nil, false
		}
		time.Sleep(5 * time.Millisecond)
	}
	conn, err := grpc.Dial(pn.clientAddr, grpc.WithInsecure(), grpc.WithDefaultCallOptions(grpc.MaxCallRecvMsgSize(64<<20), grpc.MaxCallSendMsgSize(64<<20)))
	if err != nil {
		cancel()
		c.Inconclusive("dial: " + err.Error())
		return nil, false
	}
	pn.conn = conn
	pn.etcdGRPC = etcdGRPC{kv: etcdserverpb.NewKVClient(conn), watch: etcdserverpb.NewWatchClient(conn), lease: etcdserverpb.NewLeaseClient(conn)}
	pn.brainGRPC = brainGRPC{read: pb.NewReadClient(conn), write: pb.NewWriteClient(conn), watch: pb.NewWatchClient(conn)}
	return pn, true
}

func (pn *prodNode) close() {
	pn.conn.Close()
	pn.cancel()
	pn.n.Retire()
}

// waitLeads issues creates until the node accepts one (its Campaign has won); returns the response.
func (pn *prodNode) waitLeads(key string) *pb.CreateResponse {
	deadline := time.Now().Add(40 * time.Second)
	for time.Now().Before(deadline) {
		if r, cerr := pn.brainGRPC.Create(context.Background(), &pb.CreateRequest{Key: []byte(key), Value: []byte("v")}); cerr == nil && r.Succeeded {
			pn.n.Start = r.Header.GetRevision() - 1
			return r
		}
		time.Sleep(5 * time.Millisecond)
	}
	return nil
}
