package props

import (
	"context"
	"fmt"
	"sync"
	"time"

	"go.etcd.io/etcd/api/v3/etcdserverpb"

	"github.com/kubewharf/kubebrain/pkg/backend"
	"github.com/kubewharf/kubebrain/pkg/server/etcd"

	"verif/internal/harness"
)

// etcd request builders for the transaction shapes Kubernetes issues.

func etcdCreate(key string, val []byte) *etcdserverpb.TxnRequest {
	return &etcdserverpb.TxnRequest{
		Compare: []*etcdserverpb.Compare{{Target: etcdserverpb.Compare_MOD, Result: etcdserverpb.Compare_EQUAL, Key: []byte(key),
			TargetUnion: &etcdserverpb.Compare_ModRevision{ModRevision: 0}}},
		Success: []*etcdserverpb.RequestOp{{Request: &etcdserverpb.RequestOp_RequestPut{RequestPut: &etcdserverpb.PutRequest{Key: []byte(key), Value: val}}}},
	}
}

func etcdUpdate(key string, val []byte, rev int64) *etcdserverpb.TxnRequest {
	return &etcdserverpb.TxnRequest{
		Compare: []*etcdserverpb.Compare{{Target: etcdserverpb.Compare_MOD, Result: etcdserverpb.Compare_EQUAL, Key: []byte(key),
			TargetUnion: &etcdserverpb.Compare_ModRevision{ModRevision: rev}}},
		Success: []*etcdserverpb.RequestOp{{Request: &etcdserverpb.RequestOp_RequestPut{RequestPut: &etcdserverpb.PutRequest{Key: []byte(key), Value: val}}}},
		Failure: []*etcdserverpb.RequestOp{{Request: &etcdserverpb.RequestOp_RequestRange{RequestRange: &etcdserverpb.RangeRequest{Key: []byte(key)}}}},
	}
}

func etcdGuardedDelete(key string, rev int64) *etcdserverpb.TxnRequest {
	return &etcdserverpb.TxnRequest{
		Compare: []*etcdserverpb.Compare{{Target: etcdserverpb.Compare_MOD, Result: etcdserverpb.Compare_EQUAL, Key: []byte(key),
			TargetUnion: &etcdserverpb.Compare_ModRevision{ModRevision: rev}}},
		Success: []*etcdserverpb.RequestOp{{Request: &etcdserverpb.RequestOp_RequestDeleteRange{RequestDeleteRange: &etcdserverpb.DeleteRangeRequest{Key: []byte(key)}}}},
		Failure: []*etcdserverpb.RequestOp{{Request: &etcdserverpb.RequestOp_RequestRange{RequestRange: &etcdserverpb.RangeRequest{Key: []byte(key)}}}},
	}
}

func etcdUnguardedDelete(key string) *etcdserverpb.TxnRequest {
	return &etcdserverpb.TxnRequest{
		Success: []*etcdserverpb.RequestOp{
			{Request: &etcdserverpb.RequestOp_RequestRange{RequestRange: &etcdserverpb.RangeRequest{Key: []byte(key)}}},
			{Request: &etcdserverpb.RequestOp_RequestDeleteRange{RequestDeleteRange: &etcdserverpb.DeleteRangeRequest{Key: []byte(key)}}}},
	}
}

// runC04Etcd: concurrent etcd Txn clients, some with negative / far-future mod revisions, then the
// conservation monitor and the probe.
func runC04Etcd(c *harness.Case) {
	r := c.Rng
	kind := concEngines[c.Index%len(concEngines)]
	eng, err := harness.NewEngine(kind)
	if err != nil {
		c.Inconclusive(err.Error())
		return
	}
	defer eng.Close()
	n := harness.NewNode(harness.NodeOpts{KV: eng.KV, TrackNotify: true, Config: backend.Config{EnableEtcdCompatibility: true}})
	defer n.Retire()
	srv := etcd.New(n.B, n.Metrics, harness.NewPeers(true))
	keys := []string{harness.Prefix + "/e0", harness.Prefix + "/e1"}
	var wg sync.WaitGroup
	var mu sync.Mutex
	var hist []string
	neg := 0
	for ci := 0; ci < 3; ci++ {
		wg.Add(1)
		seed := r.Int63()
		go func(ci int) {
			defer wg.Done()
			rr := newRand(seed)
			var last int64
			for i := 0; i < 25; i++ {
				key := keys[rr.Intn(len(keys))]
				var req *etcdserverpb.TxnRequest
				desc := ""
				switch x := rr.Intn(10); {
				case x < 3:
					req, desc = etcdCreate(key, []byte(fmt.Sprintf("e%d#%d", ci, i))), "create"
				case x < 6:
					req, desc = etcdUpdate(key, []byte(fmt.Sprintf("e%d#%d", ci, i)), last), fmt.Sprintf("update(mod=%d)", last)
				case x < 7:
					rev := []int64{-1, -1 << 63, -12345, 1 << 62}[rr.Intn(4)]
					req, desc = etcdUpdate(key, []byte("x"), rev), fmt.Sprintf("update(mod=%d)", rev)
					mu.Lock()
					neg++
					mu.Unlock()
				case x < 8:
					rev := []int64{-1, -7, 1<<63 - 1}[rr.Intn(3)]
					req, desc = etcdGuardedDelete(key, rev), fmt.Sprintf("delete(mod=%d)", rev)
					mu.Lock()
					neg++
					mu.Unlock()
				case x < 9:
					req, desc = etcdGuardedDelete(key, last), fmt.Sprintf("delete(mod=%d)", last)
				default:
					req, desc = etcdUnguardedDelete(key), "delete(unguarded)"
				}
				resp, err := srv.Txn(context.Background(), req)
				line := fmt.Sprintf("c%d %s %q -> ", ci, desc, key)
				if err != nil {
					line += "error " + err.Error()
				} else {
					line += fmt.Sprintf("succeeded=%v header=%d", resp.Succeeded, resp.Header.GetRevision())
					if resp.Succeeded {
						last = resp.Header.GetRevision()
					} else if len(resp.Responses) > 0 && resp.Responses[0].GetResponseRange() != nil && len(resp.Responses[0].GetResponseRange().Kvs) > 0 {
						last = resp.Responses[0].GetResponseRange().Kvs[0].ModRevision
					}
				}
				mu.Lock()
				hist = append(hist, line)
				mu.Unlock()
			}
		}(ci)
	}
	wg.Wait()
	wit := map[string]interface{}{"engine": kind, "history": hist}
	missing, dup, dealt, dropped := n.Conservation()
	if len(missing) > 0 {
		c.Violatef("C04 revision-never-resolved request=negative-or-future-etcd-mod-revision", wit, "revisions %v were handed out but never resolved after etcd transactions with negative/far-future mod revisions: the read revision can never pass %d (dropped notify calls: %d)", firstN(missing, 5), missing[0]-1, dropped)
	} else {
		if reached, skipped := n.CommittedOrSkipped(dealt, 5000, 60*time.Second); skipped {
			c.Violatef("C04 deposited-revision-never-consumed", wit, "every revision up to %d was reported to the sequencer, yet it polled the slot of revision %d five thousand times and found it empty: the read revision stays at %d for good", dealt, n.Committed()+1, n.Committed())
			return
		} else if !reached {
			c.Inconclusive("watchdog: all revisions deposited but read revision did not reach dealt")
			return
		}
		probe := harness.Prefix + "/zz-probe"
		resp, err := n.Create(probe, []byte("p"))
		if err != nil || !resp.Succeeded {
			c.Violatef("C04 probe-create-failed", wit, "probe create failed: %v %v", resp, err)
		} else if !n.WaitCommitted(resp.Header.GetRevision(), 60*time.Second) {
			c.Inconclusive("watchdog waiting for probe")
		}
	}
	if len(dup) > 0 {
		c.Violatef("C04 revision-resolved-twice", wit, "revisions %v deposited more than once", firstN(dup, 5))
	}
	c.Stat("etcd_txn_requests", int64(len(hist)))
	c.Stat("negative_or_future_mod_revisions", int64(neg))
	c.AddSet("engines", kind)
	c.Fingerprint(neg > 0, "etcd", kind, hist)
	if c.Index < 16 {
		h := hist
		if len(h) > 20 {
			h = h[:20]
		}
		c.R.Sample = map[string]interface{}{"engine": kind, "etcd_history": h}
	}
}
