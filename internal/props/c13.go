package props

import (
	"bytes"
	"context"
	"errors"
	"fmt"
	"math/rand"
	"sort"
	"sync"
	"sync/atomic"
	"time"

	proto "github.com/kubewharf/kubebrain-client/api/v2rpc"
	"go.etcd.io/etcd/api/v3/etcdserverpb"
	"google.golang.org/grpc/metadata"

	"github.com/kubewharf/kubebrain/pkg/backend"
	"github.com/kubewharf/kubebrain/pkg/server/etcd"
	"github.com/kubewharf/kubebrain/pkg/storage"

	"verif/internal/harness"
)

// C13 — range results do not depend on how the engine partitions the key space.

var c13Engines = []string{"memkv", "tikv", "badger", "tikv", "memkv+m", "tikv"}

func init() {
	Registry["C13"] = &Prop{
		Plan: func(tier string) Plan {
			return Plan{Level: "exploration", NCases: pick(tier, 240, 40000), Batch: 4, CaseTimeout: 120,
				Rule: "one case = one PRNG sequential history (C03 generator) on an engine whose partitioning is controlled: memkv/Badger behind a GetPartitions override returning 1-6 shuffled pieces whose borders are stored index/version records or well-formed internal keys of arbitrary (raw key, revision); the TiKV mock pre-split into regions at such keys. " +
					"For 4-8 read revisions: unlimited List, Count, ListByStream over the whole interval, GetPartitions + one ListByStream per advertised piece (concatenated), and the etcd negative-revision watch are compared with the reference snapshot; every data batch must name the read revision and each stream must end with exactly one terminator, last; every 4th case also streams all advertised pieces at the same time through the etcd Watch API (one Watch stream per piece, scans held until every stream exists): every response must carry its own stream's watch id, one eof per stream, union == snapshot; every 5th case ends with two whole-interval streams during which one partition worker's iterator answers a single transient error (the scanner retries that partition): a cleanly terminated stream must still carry each key once. " +
					"non-trivial = >=1 border strictly inside one key's versions (between its index record and its newest version) and >=2 pieces; distinct by (engine, border vector, history outcome vector)",
				Assumptions: []string{"TiKV regions are those of the in-process mock cluster, pre-split before the history runs"},
				MinConcl:    pick(tier, 200, 34000)}
		},
		Name: func(c *harness.Case) string { return "parts-" + c13Engines[c.Index%len(c13Engines)] },
		Run:  runC13,
	}
}

// fakeWatchServer collects what the etcd Watch handler sends.
type fakeWatchServer struct {
	ctx  context.Context
	in   chan *etcdserverpb.WatchRequest
	mu   sync.Mutex
	sent []*etcdserverpb.WatchResponse
	note chan struct{}
}

func newFakeWatchServer(ctx context.Context) *fakeWatchServer {
	return &fakeWatchServer{ctx: ctx, in: make(chan *etcdserverpb.WatchRequest, 16), note: make(chan struct{}, 1024)}
}
func (f *fakeWatchServer) Send(r *etcdserverpb.WatchResponse) error {
	f.mu.Lock()
	f.sent = append(f.sent, r)
	f.mu.Unlock()
	select {
	case f.note <- struct{}{}:
	default:
	}
	return nil
}
func (f *fakeWatchServer) Recv() (*etcdserverpb.WatchRequest, error) {
	select {
	case r := <-f.in:
		return r, nil
	case <-f.ctx.Done():
		return nil, f.ctx.Err()
	}
}
func (f *fakeWatchServer) SetHeader(metadata.MD) error  { return nil }
func (f *fakeWatchServer) SendHeader(metadata.MD) error { return nil }
func (f *fakeWatchServer) SetTrailer(metadata.MD)       {}
func (f *fakeWatchServer) Context() context.Context     { return f.ctx }
func (f *fakeWatchServer) SendMsg(m interface{}) error  { return nil }
func (f *fakeWatchServer) RecvMsg(m interface{}) error  { return nil }
func (f *fakeWatchServer) snapshot() []*etcdserverpb.WatchResponse {
	f.mu.Lock()
	defer f.mu.Unlock()
	return append([]*etcdserverpb.WatchResponse(nil), f.sent...)
}

// partitionedStore builds an engine whose partitioning is controlled: memkv/Badger behind a GetPartitions
// override, or the TiKV mock pre-split into regions, with borders drawn from the (raw key, revision) space
// the coming history will use.
func partitionedStore(c *harness.Case, r *rand.Rand, kind string, keys []string, start int, nOps int) (kv storage.KvStorage, eng *harness.Engine, borders [][]byte, ok bool) {
	cand := func() []byte {
		k := keys[r.Intn(len(keys))]
		switch r.Intn(6) {
		case 0:
			return coderC.EncodeObjectKey([]byte(k), 0) // an index record
		case 1:
			return coderC.EncodeObjectKey([]byte(k+"x"), uint64(start+r.Intn(nOps))) // a key that is never stored
		default:
			return coderC.EncodeObjectKey([]byte(k), uint64(start+1+r.Intn(nOps))) // inside / at a key's versions
		}
	}
	nb := r.Intn(6)
	for i := 0; i < nb; i++ {
		b := cand()
		dup := false
		for _, o := range borders {
			if bytes.Equal(o, b) {
				dup = true
			}
		}
		if !dup {
			borders = append(borders, b)
		}
	}
	sort.Slice(borders, func(i, j int) bool { return bytes.Compare(borders[i], borders[j]) < 0 })

	var err error
	base := kind
	if harness.IsMetricsKind(kind) {
		base = kind[:len(kind)-2]
	}
	if base == "tikv" {
		eng, err = harness.NewEngine("tikv", borders...)
		if err != nil {
			c.Inconclusive(err.Error())
			return nil, nil, nil, false
		}
		kv = eng.KV
	} else {
		eng, err = harness.NewEngine(base)
		if err != nil {
			c.Inconclusive(err.Error())
			return nil, nil, nil, false
		}
		w := harness.NewWrap(eng.KV)
		shuffleSeed := r.Int63()
		w.Partitions = func(s, e []byte) ([]storage.Partition, bool) {
			var in [][]byte
			for _, b := range borders {
				if bytes.Compare(b, s) > 0 && bytes.Compare(b, e) < 0 {
					in = append(in, b)
				}
			}
			if len(in) == 0 {
				return []storage.Partition{{Start: s, End: e}}, true
			}
			var ps []storage.Partition
			prev := s
			for _, b := range in {
				ps = append(ps, storage.Partition{Start: prev, End: b})
				prev = b
			}
			ps = append(ps, storage.Partition{Start: prev, End: e})
			rr := newRand(shuffleSeed)
			rr.Shuffle(len(ps), func(i, j int) { ps[i], ps[j] = ps[j], ps[i] })
			return ps, true
		}
		kv = w
	}
	return kv, eng, borders, true
}

func runC13(c *harness.Case) {
	r := c.Rng
	kind := c13Engines[c.Index%len(c13Engines)]
	names := []string{"a", "a/b", "ab", "b", "c/d", "c"}
	var keys []string
	for _, nm := range names[:3+r.Intn(4)] {
		keys = append(keys, harness.Prefix+"/"+nm)
	}
	const start = 1000
	nOps := 30 + r.Intn(60)
	kv, eng, borders, ok := partitionedStore(c, r, kind, keys, start, nOps)
	if !ok {
		return
	}
	defer eng.Close()
	iw := harness.NewWrap(kv) // iterator faults for the last part of every 5th case
	kv = iw
	var rm *harness.RecMetrics
	if harness.IsMetricsKind(kind) {
		rm = harness.NewRecMetrics(true)
		kv = harness.WithMetrics(kv, rm)
	}
	n := harness.NewNode(harness.NodeOpts{KV: kv, StartRev: start, Metrics: rm, Config: backend.Config{EnableEtcdCompatibility: true}})
	defer n.Retire()
	s := &seqCtx{c: c, n: n, m: harness.NewModel(), keys: keys}
	for i := 0; i < nOps; i++ {
		op := s.genOp(r, false)
		if len(op.Val) > 64 {
			op.Val = op.Val[:64]
		}
		if !s.write(op, "C13") {
			return
		}
	}
	if c.R.Verdict == "violated" {
		// the write path misbehaved (not this property's subject): nothing to compare against
		c.R.Verdict, c.R.Violations = "inconclusive", nil
		c.R.Inconclusive = "history writes disagreed with the reference; partition comparison skipped"
		return
	}
	// is some border strictly inside a key's versions?
	inside := 0
	for _, b := range borders {
		raw, rev, derr := coderC.Decode(b)
		if derr == nil && rev != 0 {
			vs := s.m.Keys[string(raw)]
			if len(vs) > 0 && rev <= vs[len(vs)-1].Rev {
				inside++
			}
		}
	}
	var bdesc []string
	for _, b := range borders {
		raw, rev, _ := coderC.Decode(b)
		bdesc = append(bdesc, fmt.Sprintf("%q@%d", raw, rev))
	}
	wit := func() interface{} {
		w := s.witness().(map[string]interface{})
		w["borders"] = bdesc
		return w
	}
	full := harness.Prefix + "/"
	fullEnd := string(backend.PrefixEnd([]byte(full)))
	encS, encE := coderC.EncodeObjectKey([]byte(full), 0), coderC.EncodeObjectKey([]byte(fullEnd), 0)

	// checkStream validates the framing of one stream and returns its kvs
	checkStream := func(what string, R uint64, batches []*proto.StreamRangeResponse) ([]*proto.KeyValue, bool) {
		var kvs []*proto.KeyValue
		term := 0
		for i, b := range batches {
			if b == nil || b.RangeResponse == nil || b.RangeResponse.Header == nil {
				c.Violatef("C13 stream-message-without-header", wit(), "%s at revision %d: message #%d has no range response/header", what, R, i)
				return nil, false
			}
			if b.RangeResponse.More {
				if term > 0 {
					c.Violatef("C13 stream-data-after-terminator", wit(), "%s at revision %d: data batch #%d follows the terminator", what, R, i)
					return nil, false
				}
				if b.RangeResponse.Header.Revision != R {
					c.Violatef("C13 stream-batch-does-not-name-read-revision", wit(), "%s at revision %d: data batch #%d (%d kvs) carries header revision %d", what, R, i, len(b.RangeResponse.Kvs), b.RangeResponse.Header.Revision)
					return nil, false
				}
				kvs = append(kvs, b.RangeResponse.Kvs...)
			} else {
				term++
				if b.Err != "" {
					c.Violatef("C13 stream-ended-with-error", wit(), "%s at revision %d ended with error %q", what, R, b.Err)
					return nil, false
				}
				if b.RangeResponse.Header.Revision != R {
					c.Violatef("C13 stream-terminator-does-not-name-read-revision", wit(), "%s at revision %d: terminator carries header revision %d", what, R, b.RangeResponse.Header.Revision)
					return nil, false
				}
			}
		}
		if term != 1 {
			c.Violatef("C13 stream-terminator-count", wit(), "%s at revision %d: %d terminators (exactly one, last, expected)", what, R, term)
			return nil, false
		}
		return kvs, true
	}
	sameSet := func(what string, R uint64, want []harness.MKV, got []*proto.KeyValue) bool {
		g := append([]*proto.KeyValue(nil), got...)
		sort.SliceStable(g, func(i, j int) bool { return bytes.Compare(g[i].Key, g[j].Key) < 0 })
		if sameKVs(want, g) {
			return true
		}
		sig := "C13 partitioned-read-differs what=" + what
		seen := map[string]int{}
		for _, kv := range got {
			seen[string(kv.Key)]++
		}
		for _, nn := range seen {
			if nn > 1 {
				sig = "C13 key-returned-twice what=" + what
			}
		}
		c.Violatef(sig, wit(), "%s at revision %d with borders %v returned %s; unpartitioned snapshot is %s", what, R, bdesc, kvStr(g), mkvStr(want))
		return false
	}

	revs := []uint64{n.Committed()}
	for i := 0; i < 3+r.Intn(5); i++ {
		revs = append(revs, s.checks[r.Intn(len(s.checks))])
	}
	srv := etcd.New(n.B, n.Metrics, harness.NewPeers(true))
	for _, R := range revs {
		want := s.m.Snapshot(full, fullEnd, R)
		// unlimited List
		lr, err := n.List(full, fullEnd, R, 0)
		if err != nil {
			c.Violatef("C13 list-error", wit(), "List at %d: %v", R, err)
			return
		}
		if !sameSet("List", R, want, lr.Kvs) {
			return
		}
		// ordered too
		if !sameKVs(want, lr.Kvs) {
			c.Violatef("C13 list-not-sorted", wit(), "List at %d with borders %v is not sorted by key: %s", R, bdesc, kvStr(lr.Kvs))
			return
		}
		c.Stat("reads_compared", 1)
		// whole-interval stream
		batches, err := streamAll(n, encS, encE, R)
		if err != nil {
			c.Violatef("C13 stream-error", wit(), "ListByStream: %v", err)
			return
		}
		kvs, ok := checkStream("ListByStream(whole interval)", R, batches)
		if !ok || !sameSet("ListByStream-whole", R, want, kvs) {
			return
		}
		c.Stat("reads_compared", 1)
		// per advertised partition
		pr, err := n.B.GetPartitions(harness.Ctx, &proto.ListPartitionRequest{Key: []byte(full), End: []byte(fullEnd)})
		if err != nil {
			c.Violatef("C13 get-partitions-error", wit(), "GetPartitions: %v", err)
			return
		}
		if int(pr.PartitionNum)+1 != len(pr.PartitionKeys) {
			c.Violatef("C13 partition-keys-count", wit(), "GetPartitions: PartitionNum=%d but %d keys", pr.PartitionNum, len(pr.PartitionKeys))
			return
		}
		pk := append([][]byte(nil), pr.PartitionKeys...)
		var all []*proto.KeyValue
		// the advertised pieces are [k_i, k_{i+1}); engines may give them in any order, the client sorts the borders
		sort.Slice(pk, func(i, j int) bool { return bytes.Compare(pk[i], pk[j]) < 0 })
		if !bytes.Equal(pk[0], encS) || !bytes.Equal(pk[len(pk)-1], encE) {
			c.Violatef("C13 advertised-partitions-do-not-cover-interval", wit(), "GetPartitions keys do not start/end at the requested interval")
			return
		}
		for i := 0; i+1 < len(pk); i++ {
			if bytes.Equal(pk[i], pk[i+1]) {
				continue
			}
			b2, err := streamAll(n, pk[i], pk[i+1], R)
			if err != nil {
				c.Violatef("C13 stream-error", wit(), "ListByStream(piece %d): %v", i, err)
				return
			}
			kvs, ok := checkStream(fmt.Sprintf("ListByStream(advertised piece %d of %d)", i, len(pk)-1), R, b2)
			if !ok {
				return
			}
			all = append(all, kvs...)
		}
		if !sameSet("ListByStream-per-advertised-partition", R, want, all) {
			return
		}
		c.Stat("reads_compared", 1)
		c.Stat("advertised_pieces_streamed", int64(len(pk)-1))
		// count (latest only)
		if R == n.Committed() {
			cr, err := n.B.Count(harness.Ctx, &proto.CountRequest{Key: []byte(full), End: []byte(fullEnd)})
			if err != nil || int(cr.Count) != len(want) {
				c.Violatef("C13 count-differs", wit(), "Count with borders %v = %v (err %v); snapshot has %d keys", bdesc, cr.GetCount(), err, len(want))
				return
			}
			c.Stat("reads_compared", 1)
		}
		// etcd negative-revision watch == range stream
		ctx, cancel := context.WithCancel(context.Background())
		fw := newFakeWatchServer(ctx)
		done := make(chan error, 1)
		go func() { done <- srv.Watch(fw) }()
		fw.in <- &etcdserverpb.WatchRequest{RequestUnion: &etcdserverpb.WatchRequest_CreateRequest{CreateRequest: &etcdserverpb.WatchCreateRequest{
			Key: encS, RangeEnd: encE, StartRevision: -int64(R)}}}
		var got []*proto.KeyValue
		eof := false
		deadline := time.After(60 * time.Second)
		idx := 0
		for !eof {
			select {
			case <-fw.note:
			case <-deadline:
				cancel()
				c.Inconclusive("watchdog waiting for the etcd range stream to end")
				return
			}
			sent := fw.snapshot()
			for ; idx < len(sent); idx++ {
				m := sent[idx]
				if m.Created {
					continue
				}
				if m.Header.GetRevision() == -1 {
					eof = true
					if len(m.Events) != 1 || string(m.Events[0].Kv.Key) != "eof" || len(m.Events[0].Kv.Value) != 0 {
						c.Violatef("C13 etcd-range-stream-ended-with-error", wit(), "etcd range stream at %d ended with %v", R, m.Events)
						cancel()
						return
					}
					continue
				}
				if eof {
					c.Violatef("C13 stream-data-after-terminator what=etcd", wit(), "etcd range stream at %d: data after eof", R)
					cancel()
					return
				}
				if m.Header.GetRevision() != int64(R) {
					c.Violatef("C13 stream-batch-does-not-name-read-revision what=etcd", wit(), "etcd range stream at %d: batch header revision %d", R, m.Header.GetRevision())
					cancel()
					return
				}
				for _, ev := range m.Events {
					got = append(got, &proto.KeyValue{Key: ev.Kv.Key, Value: ev.Kv.Value, Revision: uint64(ev.Kv.ModRevision)})
				}
			}
		}
		cancel()
		<-done
		if !sameSet("etcd-negative-revision-watch", R, want, got) {
			return
		}
		c.Stat("reads_compared", 1)
	}
	if c.Index%4 == 1 {
		// the advertised pieces streamed AT THE SAME TIME through the etcd Watch API, one Watch stream per piece, as a
		// client listing in parallel does; the scans are held (a descheduled worker) until every stream has been
		// created. Every response of a stream must carry the watch id that stream was given, each stream ends with
		// exactly one eof, and together they hold the snapshot.
		R := n.Committed()
		want := s.m.Snapshot(full, fullEnd, R)
		pr, perr := n.B.GetPartitions(harness.Ctx, &proto.ListPartitionRequest{Key: []byte(full), End: []byte(fullEnd)})
		if perr == nil && len(pr.PartitionKeys) >= 2 {
			pk := append([][]byte(nil), pr.PartitionKeys...)
			sort.Slice(pk, func(i, j int) bool { return bytes.Compare(pk[i], pk[j]) < 0 })
			type piece struct {
				fw     *fakeWatchServer
				cancel func()
				done   chan error
			}
			var pieces []*piece
			allCreated := make(chan struct{})
			iw.IterFault = func(start, end []byte, k int) error {
				<-allCreated
				return nil
			}
			for i := 0; i+1 < len(pk); i++ {
				if bytes.Equal(pk[i], pk[i+1]) {
					continue
				}
				ctx, cancel := context.WithCancel(context.Background())
				p := &piece{fw: newFakeWatchServer(ctx), cancel: cancel, done: make(chan error, 1)}
				pieces = append(pieces, p)
				go func(p *piece) { p.done <- srv.Watch(p.fw) }(p)
				p.fw.in <- &etcdserverpb.WatchRequest{RequestUnion: &etcdserverpb.WatchRequest_CreateRequest{CreateRequest: &etcdserverpb.WatchCreateRequest{
					Key: pk[i], RangeEnd: pk[i+1], StartRevision: -int64(R)}}}
			}
			// wait until every stream has answered "created"
			createdBy := time.Now().Add(30 * time.Second)
			for {
				nCreated := 0
				for _, p := range pieces {
					for _, m := range p.fw.snapshot() {
						if m.Created {
							nCreated++
							break
						}
					}
				}
				if nCreated == len(pieces) {
					break
				}
				if time.Now().After(createdBy) {
					close(allCreated)
					iw.IterFault = nil
					for _, p := range pieces {
						p.cancel()
					}
					c.Inconclusive("watchdog: the range streams were not all created")
					return
				}
				time.Sleep(time.Millisecond)
			}
			close(allCreated)
			var all []*proto.KeyValue
			endBy := time.Now().Add(60 * time.Second)
			for pi, p := range pieces {
				var id int64 = -1
				eofs := 0
				for eofs == 0 {
					if time.Now().After(endBy) {
						break
					}
					eofs = 0
					for _, m := range p.fw.snapshot() {
						if m.Header.GetRevision() == -1 {
							eofs++
						}
					}
					if eofs == 0 {
						time.Sleep(2 * time.Millisecond)
					}
				}
				time.Sleep(5 * time.Millisecond) // anything that wrongly follows the eof
				eofs = 0
				for _, m := range p.fw.snapshot() {
					if m.Created {
						id = m.WatchId
						continue
					}
					if m.WatchId != id {
						iw.IterFault = nil
						c.Violatef("C13 range-stream-response-carries-a-foreign-watch-id what=etcd-concurrent-pieces", wit(), "piece %d of %d was created as watch %d; one of its responses (%d events, header %d) carries watch id %d", pi, len(pieces), id, len(m.Events), m.Header.GetRevision(), m.WatchId)
						for _, q := range pieces {
							q.cancel()
						}
						return
					}
					if m.Header.GetRevision() == -1 {
						eofs++
						continue
					}
					for _, ev := range m.Events {
						all = append(all, &proto.KeyValue{Key: ev.Kv.Key, Value: ev.Kv.Value, Revision: uint64(ev.Kv.ModRevision)})
					}
				}
				if eofs != 1 {
					iw.IterFault = nil
					sig := "C13 stream-terminator-count what=etcd-concurrent-pieces"
					c.Violatef(sig, wit(), "piece %d of %d streamed concurrently through the etcd Watch API ended with %d eof messages (exactly one expected)", pi, len(pieces), eofs)
					for _, q := range pieces {
						q.cancel()
					}
					return
				}
			}
			iw.IterFault = nil
			for _, p := range pieces {
				p.cancel()
			}
			if !sameSet("etcd-concurrent-pieces", R, want, all) {
				return
			}
			c.Stat("pieces_streamed_concurrently_through_etcd_watch", int64(len(pieces)))
		}
	}
	if c.Index%5 == 3 {
		// one partition worker's iterator answers a single transient error at a PRNG-drawn step; the scanner retries
		// that partition after its backoff. A stream that still ends with a clean terminator must carry every key of
		// the snapshot exactly once.
		recs, derr := harness.Dump(eng.KV, encS, encE)
		R := n.Committed()
		want := s.m.Snapshot(full, fullEnd, R)
		for trial := 0; trial < 2 && derr == nil && len(recs) > 2; trial++ {
			N := 1 + r.Intn(len(recs))
			var fired int32
			iw.IterFault = func(start, end []byte, k int) error {
				if k == N && atomic.CompareAndSwapInt32(&fired, 0, 1) {
					return errors.New("injected transient iterator error")
				}
				return nil
			}
			batches, err := streamAll(n, encS, encE, R)
			iw.IterFault = nil
			failed := err != nil
			for _, b := range batches {
				if b != nil && b.Err != "" {
					failed = true
				}
			}
			if failed {
				c.Stat("streams_failed_by_the_transient_iterator_error", 1)
				continue
			}
			kvs, ok := checkStream("ListByStream(whole interval, one transient iterator error)", R, batches)
			if !ok || !sameSet("ListByStream-whole-after-transient-iterator-error", R, want, kvs) {
				return
			}
			if atomic.LoadInt32(&fired) == 1 {
				c.Stat("streams_compared_after_a_transient_iterator_error", 1)
			}
		}
		// the same for Count: a partition scanned twice must be counted once
		if derr == nil && len(recs) > 2 {
			N := 1 + r.Intn(len(recs))
			var fired int32
			iw.IterFault = func(start, end []byte, k int) error {
				if k == N && atomic.CompareAndSwapInt32(&fired, 0, 1) {
					return errors.New("injected transient iterator error")
				}
				return nil
			}
			cr, cerr := n.B.Count(harness.Ctx, &proto.CountRequest{Key: []byte(full), End: []byte(fullEnd)})
			iw.IterFault = nil
			if cerr == nil && n.Committed() == R {
				if int(cr.Count) != len(want) {
					c.Violatef("C13 count-differs-from-unpartitioned-reference after-transient-iterator-error", wit(), "Count with one transient iterator error at step %d of a partition scan (retried by the scanner) answered %d; the snapshot at %d holds %d keys", N, cr.Count, R, len(want))
					return
				}
				if atomic.LoadInt32(&fired) == 1 {
					c.Stat("counts_compared_after_a_transient_iterator_error", 1)
				}
			}
		}
	}
	{
		// streams whose scan cannot finish: the request's context is already cancelled (every case), or one partition's
		// iterator keeps failing until the scanner gives up (every 10th case, ~4 s of scanner backoff). Whatever the scan
		// did, the stream ends with exactly one terminator, last, and a terminator without an error certifies a
		// complete listing.
		R := n.Committed()
		want := s.m.Snapshot(full, fullEnd, R)
		endsOnce := func(what string, batches []*proto.StreamRangeResponse) bool {
			term, lastErr := 0, ""
			var kvs []*proto.KeyValue
			for i, b := range batches {
				if b == nil || b.RangeResponse == nil {
					c.Violatef("C13 stream-message-without-header", wit(), "%s at revision %d: message #%d has no range response", what, R, i)
					return false
				}
				if b.RangeResponse.More {
					if term > 0 {
						c.Violatef("C13 stream-data-after-terminator what=failing-scan", wit(), "%s at revision %d: data batch #%d follows the terminator", what, R, i)
						return false
					}
					kvs = append(kvs, b.RangeResponse.Kvs...)
					continue
				}
				term++
				lastErr = b.Err
			}
			if term != 1 {
				c.Violatef("C13 stream-terminator-count what=failing-scan", wit(), "%s at revision %d: %d terminators (exactly one, last, expected; the last one carries error %q)", what, R, term, lastErr)
				return false
			}
			if lastErr != "" {
				c.Stat("failed_streams_ending_with_one_error_terminator", 1)
				return true
			}
			return sameSet(what, R, want, kvs)
		}
		cctx, cancel := context.WithCancel(harness.Ctx)
		cancel()
		if ch, err := n.B.ListByStream(cctx, encS, encE, R); err == nil {
			var batches []*proto.StreamRangeResponse
			for m := range ch {
				batches = append(batches, m)
			}
			if !endsOnce("ListByStream(whole interval, context already cancelled)", batches) {
				return
			}
		} else {
			c.Stat("streams_refused_outright_for_a_cancelled_context", 1)
		}
		if (c.Tier == "quick" && c.Index%10 == 7) || c.Index%50 == 7 {
			recs, derr := harness.Dump(eng.KV, encS, encE)
			if derr == nil && len(recs) > 2 {
				N := 1 + r.Intn(len(recs))
				var bad atomic.Value
				iw.IterFault = func(start, end []byte, k int) error {
					if k >= N && bad.Load() == nil {
						bad.Store(string(start))
					}
					if v, _ := bad.Load().(string); v == string(start) && k >= N {
						return errors.New("injected persistent iterator error")
					}
					return nil
				}
				batches, err := streamAll(n, encS, encE, R)
				iw.IterFault = nil
				if err == nil && !endsOnce("ListByStream(whole interval, one partition's iterator keeps failing)", batches) {
					return
				}
				c.Stat("streams_run_against_a_persistently_failing_iterator", 1)
			}
		}
	}
	c.Stat("borders", int64(len(borders)))
	c.Stat("borders_inside_a_keys_versions", int64(inside))
	c.AddSet("engines", kind)
	c.Fingerprint(inside > 0 && len(borders) > 0, kind, bdesc, string(s.outcomes))
	if c.Index < 6 {
		c.R.Sample = map[string]interface{}{"engine": kind, "borders": bdesc, "keys": keys, "ops": nOps, "read_revisions": revs}
	}
}
