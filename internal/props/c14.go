package props

import (
	"bytes"
	"context"
	"fmt"
	"sync"
	"sync/atomic"
	"time"

	"github.com/anishathalye/porcupine"
	apierrors "k8s.io/apimachinery/pkg/api/errors"
	metav1 "k8s.io/apimachinery/pkg/apis/meta/v1"
	"k8s.io/client-go/tools/leaderelection/resourcelock"

	"github.com/kubewharf/kubebrain/pkg/backend"
	"github.com/kubewharf/kubebrain/pkg/backend/election"
	"github.com/kubewharf/kubebrain/pkg/server/service/leader"
	"github.com/kubewharf/kubebrain/pkg/storage"

	"verif/internal/harness"
)

// C14 — the leader lock is taken by at most one candidate per observed state.

const c14EnumCases = 8

func init() {
	Registry["C14"] = &Prop{
		Plan: func(tier string) Plan {
			return Plan{Level: "exploration", NCases: c14EnumCases + pick(tier, 64, 3000), Batch: 4, CaseTimeout: 120,
				Rule: "cases 0-7: ALL interleavings of the steps of 3 candidates (34650) and of 2 candidates (70), each candidate running Get->(Create|Update) twice as client-go's tryAcquireOrRenew issues them (plus all 252 interleavings of 2 candidates running Get,write,write,Get,write, i.e. a rejected write retried without a fresh Get; and all interleavings of 2 x Get,write,Get,release / 2 x Get,write,release / 3 x Get,write,release, where release is client-go's Update naming no holder sent without a fresh Get; and all 20 interleavings of 2 x Get,info,write on locks of real backends, where info is a request for the node's election info answered by its election service between the loop's Get and its write), on memkv through the real resourcelock.Interface, split over 8 cases and checked in lock-step against a register model (Create succeeds iff absent; Update succeeds iff the stored bytes equal what this candidate last read; stored record == last successful write; uncontended Get->Update succeeds). " +
					"further cases: PRNG samples of 300 interleavings on Badger / TiKV mock / locks obtained from real backends, and concurrent goroutine stress with commit delays whose recorded history is checked with porcupine against a compare-and-swap register. Every record written carries a unique counter. " +
					"non-trivial = interleaving in which >=2 candidates wrote from the same observed record (so at least one write had to fail); distinct by interleaving",
				Assumptions: []string{"lease timing is not modelled: candidates always try to take the lock, which exercises strictly more write attempts than client-go would make",
					"the memkv step enumeration is complete for 2 and 3 candidates x 2 rounds; everything else is sampled"},
				MinConcl: 8 + pick(tier, 50, 2500)}
		},
		Name: func(c *harness.Case) string {
			if c.Index < c14EnumCases {
				return "enumerate-memkv"
			}
			switch (c.Index - c14EnumCases) % 4 {
			case 0:
				return "sample-badger"
			case 1:
				return "sample-tikv"
			case 2:
				return "sample-backend-locks"
			}
			return "concurrent-porcupine"
		},
		Run: func(c *harness.Case) {
			switch c.R.Name {
			case "enumerate-memkv":
				runC14Enumerate(c)
			case "concurrent-porcupine":
				runC14Concurrent(c)
			default:
				runC14Sample(c)
			}
		},
	}
}

var c14Prefix int64

type candidate struct {
	id       string
	lock     resourcelock.Interface
	info     leader.LeaderElection // the node's election service over the same lock (only for locks obtained from backends)
	lastRead []byte                // model: what this candidate last read (or created itself)
	hasRead  bool
	seq      int
}

func newCandidates(kv storage.KvStorage, n int, viaBackend bool) ([]*candidate, []byte, []*harness.Node) {
	prefix := fmt.Sprintf("/lock%d", atomic.AddInt64(&c14Prefix, 1))
	var cs []*candidate
	var nodes []*harness.Node
	for i := 0; i < n; i++ {
		id := fmt.Sprintf("cand-%d", i)
		var l resourcelock.Interface
		if viaBackend {
			nd := harness.NewNode(harness.NodeOpts{KV: kv, Config: backend.Config{Prefix: prefix, Identity: id}})
			nodes = append(nodes, nd)
			l = nd.B.GetResourceLock()
			cs = append(cs, &candidate{id: id, lock: l, info: leader.NewLeaderElection(nd.B, nd.Metrics, func(context.Context) {}, func() {})})
			continue
		} else {
			l = election.NewResourceLockManager(election.Config{Prefix: prefix, Identity: id, Timeout: time.Second}, kv).GetResourceLock()
		}
		cs = append(cs, &candidate{id: id, lock: l})
	}
	return cs, []byte(prefix + "/election"), nodes
}

func (cd *candidate) record() resourcelock.LeaderElectionRecord {
	cd.seq++
	return resourcelock.LeaderElectionRecord{HolderIdentity: cd.id, LeaseDurationSeconds: 8, LeaderTransitions: cd.seq,
		AcquireTime: metav1.Unix(int64(1000+cd.seq), 0), RenewTime: metav1.Unix(int64(2000+cd.seq), 0)}
}

// step runs one program step of cd against the lock and the model; returns a description and a mismatch.
// Program per round: "g" (Get) then "w" (Create if the Get said not-found, else Update).
func lockStep(kv storage.KvStorage, key []byte, stored *[]byte, cd *candidate, step byte, sawNotFound *bool) (string, string, bool) {
	switch step {
	case 'i':
		// somebody asks the node which node leads (/election, follower refusals, the revision syncer): a look at the
		// lock that is not part of the election loop and must not change what that loop believes it has observed
		if cd.info != nil {
			_, _ = cd.info.GetElectionInfo()
			_ = cd.info.GetLeaderInfo()
		} else {
			_ = cd.lock.Describe()
		}
		return cd.id + ":info", "", false
	case 'g':
		rec, err := cd.lock.Get()
		if *stored == nil {
			if err == nil || !apierrors.IsNotFound(err) {
				return cd.id + ":get", fmt.Sprintf("%s Get answered (%v,%v) but no record is stored (NotFound expected)", cd.id, rec, err), false
			}
			*sawNotFound = true
			return cd.id + ":get->notfound", "", false
		}
		if err != nil {
			return cd.id + ":get", fmt.Sprintf("%s Get failed (%v) although a record is stored", cd.id, err), false
		}
		*sawNotFound = false
		cd.lastRead, cd.hasRead = append([]byte{}, *stored...), true
		return fmt.Sprintf("%s:get->%s#%d", cd.id, rec.HolderIdentity, rec.LeaderTransitions), "", false
	default:
		rec := cd.record()
		if step == 'r' {
			// a release as client-go's release() issues it (ReleaseOnCancel): an Update whose record names no holder,
			// sent without a fresh Get. It is an update like any other: accepted only on the record last read.
			rec.HolderIdentity = ""
			*sawNotFound = false
		}
		if *sawNotFound {
			err := cd.lock.Create(rec)
			want := *stored == nil
			if (err == nil) != want {
				return cd.id + ":create", fmt.Sprintf("%s Create(#%d) -> %v; the record was absent=%v, so success must be %v", cd.id, rec.LeaderTransitions, err, want, want), false
			}
			if err == nil {
				raw, _ := kv.Get(context.Background(), key)
				*stored = raw
				cd.lastRead, cd.hasRead = append([]byte{}, raw...), true
				return fmt.Sprintf("%s:create#%d->ok", cd.id, rec.LeaderTransitions), "", false
			}
			*sawNotFound = false // the create was rejected: a record exists now, a further write is an Update
			return fmt.Sprintf("%s:create#%d->fail", cd.id, rec.LeaderTransitions), "", true
		}
		err := cd.lock.Update(rec)
		want := cd.hasRead && *stored != nil && bytes.Equal(*stored, cd.lastRead)
		if (err == nil) != want {
			if step == 'r' {
				return cd.id + ":release", fmt.Sprintf("%s release Update(#%d, no holder) -> %v; stored record %s, candidate last read %s, so success must be %v", cd.id, rec.LeaderTransitions, err, short(*stored), short(cd.lastRead), want), false
			}
			return cd.id + ":update", fmt.Sprintf("%s Update(#%d) -> %v; stored record %s, candidate last read %s, so success must be %v", cd.id, rec.LeaderTransitions, err, short(*stored), short(cd.lastRead), want), false
		}
		what := "update"
		if step == 'r' {
			what = "release"
		}
		if err == nil {
			raw, _ := kv.Get(context.Background(), key)
			*stored = raw
			return fmt.Sprintf("%s:%s#%d->ok", cd.id, what, rec.LeaderTransitions), "", false
		}
		return fmt.Sprintf("%s:%s#%d->fail", cd.id, what, rec.LeaderTransitions), "", true
	}
}

func short(b []byte) string {
	if b == nil {
		return "<absent>"
	}
	s := string(b)
	if len(s) > 70 {
		s = s[:70] + "..."
	}
	return s
}

// runInterleaving executes one interleaving (sequence of candidate indexes) on a fresh lock key.
func runInterleaving(c *harness.Case, kv storage.KvStorage, order []int, nCand int, viaBackend bool, engine string) (failedWrites int, ok bool) {
	return runInterleavingProg(c, kv, order, nCand, viaBackend, engine, "gwgw")
}

// runInterleavingProg: prog is each candidate's step sequence ('g' = Get, 'w' = Create/Update). A 'w' that
// follows a rejected Create is an Update (the candidate now believes the record exists).
func runInterleavingProg(c *harness.Case, kv storage.KvStorage, order []int, nCand int, viaBackend bool, engine string, prog string) (failedWrites int, ok bool) {
	cs, key, nodes := newCandidates(kv, nCand, viaBackend)
	defer func() {
		for _, nd := range nodes {
			nd.Retire()
		}
	}()
	var stored []byte
	pos := make([]int, nCand)
	notFound := make([]bool, nCand)
	var trace []string
	for _, ci := range order {
		st := prog[pos[ci]]
		pos[ci]++
		desc, mis, failed := lockStep(kv, key, &stored, cs[ci], st, &notFound[ci])
		trace = append(trace, desc)
		if failed {
			failedWrites++
		}
		if mis != "" {
			c.Violatef("C14 lock-step-differs-from-register-model engine="+engine, map[string]interface{}{"interleaving": trace, "engine": engine}, "%s (interleaving so far: %v)", mis, trace)
			return failedWrites, false
		}
		// the stored record always equals the last successful write
		raw, err := kv.Get(context.Background(), key)
		if (stored == nil) != (err != nil) || (stored != nil && !bytes.Equal(raw, stored)) {
			c.Violatef("C14 stored-record-changed-without-successful-write engine="+engine, map[string]interface{}{"interleaving": trace}, "after %v the stored lock record is %s, the last successful write left %s", trace, short(raw), short(stored))
			return failedWrites, false
		}
	}
	return failedWrites, true
}

// interleavings enumerates all merges of n programs of length 4, calling f with each.
func interleavings(n int, f func(order []int) bool) { interleavingsLen(n, 4, f) }

func interleavingsLen(n, steps int, f func(order []int) bool) {
	rem := make([]int, n)
	for i := range rem {
		rem[i] = steps
	}
	order := make([]int, 0, steps*n)
	var rec func() bool
	rec = func() bool {
		if len(order) == steps*n {
			return f(order)
		}
		for i := 0; i < n; i++ {
			if rem[i] > 0 {
				rem[i]--
				order = append(order, i)
				if !rec() {
					return false
				}
				order = order[:len(order)-1]
				rem[i]++
			}
		}
		return true
	}
	rec()
}

func runC14Enumerate(c *harness.Case) {
	eng, _ := harness.NewEngine("memkv")
	defer eng.Close()
	idx := 0
	nt := 0
	for _, nCand := range []int{2, 3} {
		interleavings(nCand, func(order []int) bool {
			idx++
			if idx%c14EnumCases != c.Index {
				return true
			}
			fw, ok := runInterleaving(c, eng.KV, order, nCand, false, "memkv")
			if fw > 0 {
				nt++
				c.AddExecution(fmt.Sprintf("memkv/%d/%v", nCand, order))
			} else {
				c.AddExecution("")
			}
			if c.Index == 0 && idx == 8 {
				c.R.Sample = map[string]interface{}{"engine": "memkv", "candidates": nCand, "interleaving": fmt.Sprint(order), "failed_writes": fw}
			}
			return ok
		})
	}
	// programs in which a rejected write is retried WITHOUT a fresh Get (client-go never does this, the property
	// quantifies over all step interleavings): 2 candidates x "gwwgw", all 252 interleavings
	if c.Index == 0 {
		interleavingsLen(2, 5, func(order []int) bool {
			fw, ok := runInterleavingProg(c, eng.KV, order, 2, false, "memkv", "gwwgw")
			if fw > 0 {
				c.AddExecution(fmt.Sprintf("memkv/retry-without-get/%v", order))
			} else {
				c.AddExecution("")
			}
			c.Stat("memkv_retry_without_get_interleavings", 1)
			return ok
		})
	}
	// programs ending in a release (an Update naming no holder, sent without a fresh Get, as client-go's release()
	// does when leadership is given up): 2 candidates x "gwgr" (70), 2 x "gwr" (20), 3 x "gwr" (1680)
	if c.Index == 1 {
		for _, pr := range []struct {
			n    int
			prog string
		}{{2, "gwgr"}, {2, "gwr"}, {3, "gwr"}} {
			pr := pr
			interleavingsLen(pr.n, len(pr.prog), func(order []int) bool {
				fw, ok := runInterleavingProg(c, eng.KV, order, pr.n, false, "memkv", pr.prog)
				if fw > 0 {
					c.AddExecution(fmt.Sprintf("memkv/release-%s/%d/%v", pr.prog, pr.n, order))
				} else {
					c.AddExecution("")
				}
				c.Stat("memkv_release_program_interleavings", 1)
				return ok
			})
		}
	}
	// election-info requests between a candidate's Get and its write, on locks obtained from real backends whose
	// election service answers them: all 20 interleavings of 2 x (Get, info, write)
	if c.Index == 2 {
		interleavingsLen(2, 3, func(order []int) bool {
			fw, ok := runInterleavingProg(c, eng.KV, order, 2, true, "memkv-via-backend", "giw")
			if fw > 0 {
				c.AddExecution(fmt.Sprintf("memkv-via-backend/info/%v", order))
			} else {
				c.AddExecution("")
			}
			c.Stat("info_request_interleavings", 1)
			return ok
		})
	}
	c.Stat("memkv_interleavings_enumerated", c.R.Evals)
	c.AddSet("engines", "memkv")
}

func runC14Sample(c *harness.Case) {
	r := c.Rng
	kind, via := "badger", false
	switch c.R.Name {
	case "sample-tikv":
		kind = "tikv"
	case "sample-backend-locks":
		kind, via = "memkv", true
	}
	eng, err := harness.NewEngine(kind)
	if err != nil {
		c.Inconclusive(err.Error())
		return
	}
	defer eng.Close()
	n := 300
	if via {
		n = 25 // each interleaving builds real backends
	}
	for i := 0; i < n; i++ {
		nCand := 2 + r.Intn(2)
		var order []int
		rem := make([]int, nCand)
		for j := range rem {
			rem[j] = 4
		}
		for len(order) < 4*nCand {
			ci := r.Intn(nCand)
			if rem[ci] > 0 {
				rem[ci]--
				order = append(order, ci)
			}
		}
		label := kind
		if via {
			label = "memkv-via-backend"
		}
		var fw int
		var ok bool
		if i%7 == 6 {
			// programs with an election-info request between the loop's Get and its write
			prog := []string{"giwgw", "gwgiw", "gigiw"}[r.Intn(3)]
			order = order[:0]
			rem4 := make([]int, nCand)
			for j := range rem4 {
				rem4[j] = len(prog)
			}
			for len(order) < len(prog)*nCand {
				ci := r.Intn(nCand)
				if rem4[ci] > 0 {
					rem4[ci]--
					order = append(order, ci)
				}
			}
			fw, ok = runInterleavingProg(c, eng.KV, order, nCand, via, label, prog)
		} else if i%5 == 4 {
			// programs ending in a release without a fresh Get
			prog := []string{"gwr", "gwgr", "gwgwr"}[r.Intn(3)]
			order = order[:0]
			rem3 := make([]int, nCand)
			for j := range rem3 {
				rem3[j] = len(prog)
			}
			for len(order) < len(prog)*nCand {
				ci := r.Intn(nCand)
				if rem3[ci] > 0 {
					rem3[ci]--
					order = append(order, ci)
				}
			}
			fw, ok = runInterleavingProg(c, eng.KV, order, nCand, via, label, prog)
		} else if i%3 == 2 {
			// retry-without-get programs, 5 steps each
			order = order[:0]
			rem2 := make([]int, nCand)
			for j := range rem2 {
				rem2[j] = 5
			}
			for len(order) < 5*nCand {
				ci := r.Intn(nCand)
				if rem2[ci] > 0 {
					rem2[ci]--
					order = append(order, ci)
				}
			}
			fw, ok = runInterleavingProg(c, eng.KV, order, nCand, via, label, "gwwgw")
		} else {
			fw, ok = runInterleaving(c, eng.KV, order, nCand, via, label)
		}
		if fw > 0 {
			c.AddExecution(fmt.Sprintf("%s/%d/%v", label, nCand, order))
		} else {
			c.AddExecution("")
		}
		if !ok {
			return
		}
	}
	c.Stat("sampled_interleavings", int64(n))
	c.AddSet("engines", c.R.Name)
}

// ---- concurrent stress + porcupine

type lockIn struct {
	Op     string // get | create | update
	Expect string // update: what the candidate last read
	New    string
}
type lockOut struct {
	OK  bool
	Val string // get: stored bytes ("" = not found)
}

func runC14Concurrent(c *harness.Case) {
	r := c.Rng
	kind := []string{"badger", "memkv", "tikv", "badger"}[(c.Index/4)%4]
	eng, err := harness.NewEngine(kind)
	if err != nil {
		c.Inconclusive(err.Error())
		return
	}
	defer eng.Close()
	w := harness.NewWrap(eng.KV)
	seed := r.Int63()
	var innerSeq int64
	w.BeforeCommit = func(b *harness.BatchInfo) {
		x := uint64(seed) ^ uint64(b.Seq)*0x9e3779b97f4a7c15
		x ^= x >> 29
		time.Sleep(time.Duration(x%150) * time.Microsecond)
	}
	if kind != "memkv" {
		// engines whose open batch holds no lock: a candidate may be descheduled between handing its compare to the
		// engine's batch and committing it
		w.BeforeInnerCommit = func(ops []harness.BatchOp) {
			x := uint64(seed)*7 ^ uint64(atomic.AddInt64(&innerSeq, 1))*0x9e3779b97f4a7c15
			x ^= x >> 29
			time.Sleep(time.Duration(x%200) * time.Microsecond)
		}
	}
	nCand := 2 + r.Intn(2)
	cs, _, _ := newCandidates(w, nCand, false)
	var stamp int64
	var mu sync.Mutex
	var ops []porcupine.Operation
	var wg sync.WaitGroup
	rounds := 40 + r.Intn(40)
	// a barrier per round releases the candidates together (just scheduling: any of them may still be first)
	barriers := make([]chan struct{}, rounds)
	for i := range barriers {
		barriers[i] = make(chan struct{})
	}
	var arrived = make([]int32, rounds)
	okWrites, releases := int64(0), int64(0)
	for ci, cd := range cs {
		wg.Add(1)
		go func(ci int, cd *candidate) {
			defer wg.Done()
			for i := 0; i < rounds; i++ {
				if atomic.AddInt32(&arrived[i], 1) == int32(nCand) {
					close(barriers[i])
				}
				select {
				case <-barriers[i]:
				case <-time.After(2 * time.Second):
				}
				t0 := atomic.AddInt64(&stamp, 1)
				rr, gerr := cd.lock.Get()
				t1 := atomic.AddInt64(&stamp, 1)
				notFound := gerr != nil && apierrors.IsNotFound(gerr)
				if gerr != nil && !notFound {
					continue // an engine error tells nothing about the register
				}
				got := ""
				if !notFound {
					got = fmt.Sprintf("%s#%d", rr.HolderIdentity, rr.LeaderTransitions) // identifies the stored bytes uniquely
				}
				rec := cd.record()
				in := lockIn{New: fmt.Sprintf("%s#%d", cd.id, rec.LeaderTransitions)}
				t2 := atomic.AddInt64(&stamp, 1)
				var werr error
				if notFound {
					in.Op = "create"
					werr = cd.lock.Create(rec)
				} else {
					in.Op, in.Expect = "update", got
					werr = cd.lock.Update(rec)
				}
				t3 := atomic.AddInt64(&stamp, 1)
				mu.Lock()
				ops = append(ops, porcupine.Operation{ClientId: ci, Input: lockIn{Op: "get"}, Call: t0, Output: lockOut{OK: true, Val: got}, Return: t1})
				ops = append(ops, porcupine.Operation{ClientId: ci, Input: in, Call: t2, Output: lockOut{OK: werr == nil}, Return: t3})
				mu.Unlock()
				if werr == nil {
					atomic.AddInt64(&okWrites, 1)
				}
				if in.Op == "update" && (i+ci)%4 == 0 {
					// every 4th round the candidate also gives the lock up without a fresh Get: an update from the
					// record it last READ (stale if its own write was accepted)
					rel := cd.record()
					rel.HolderIdentity = ""
					t4 := atomic.AddInt64(&stamp, 1)
					rerr := cd.lock.Update(rel)
					t5 := atomic.AddInt64(&stamp, 1)
					mu.Lock()
					ops = append(ops, porcupine.Operation{ClientId: ci, Input: lockIn{Op: "update", Expect: got, New: fmt.Sprintf("#%d", rel.LeaderTransitions)}, Call: t4, Output: lockOut{OK: rerr == nil}, Return: t5})
					mu.Unlock()
					atomic.AddInt64(&releases, 1)
				}
			}
		}(ci, cd)
	}
	wg.Wait()
	model := porcupine.Model{
		Init: func() interface{} { return "" },
		Step: func(state, input, output interface{}) (bool, interface{}) {
			st := state.(string)
			in := input.(lockIn)
			out := output.(lockOut)
			switch in.Op {
			case "get":
				return out.Val == st, st
			case "create":
				if st == "" {
					// an engine may refuse a create for its own reasons (txn conflict); a refusal never changes the state
					if out.OK {
						return true, in.New
					}
					return true, st
				}
				return !out.OK, st
			default:
				if st == in.Expect {
					if out.OK {
						return true, in.New
					}
					return true, st
				}
				return !out.OK, st
			}
		},
		DescribeOperation: func(input, output interface{}) string {
			return fmt.Sprintf("%+v -> %+v", input, output)
		},
	}
	res := porcupine.CheckOperationsTimeout(model, ops, 60*time.Second)
	switch res {
	case porcupine.Illegal:
		var h []string
		for _, op := range ops {
			h = append(h, fmt.Sprintf("c%d [%d,%d] %+v -> %+v", op.ClientId, op.Call, op.Return, op.Input, op.Output))
		}
		c.Violatef("C14 lock-history-not-linearizable-as-cas-register engine="+kind, map[string]interface{}{"history": h}, "the recorded history of %d lock operations of %d candidates cannot be explained by a compare-and-swap register (a write succeeded from a stale or shared observation)", len(ops), nCand)
	case porcupine.Unknown:
		c.Inconclusive("porcupine timed out")
	}
	c.Stat("lock_operations_recorded", int64(len(ops)))
	c.Stat("successful_lock_writes", okWrites)
	c.Stat("release_updates_without_fresh_get", releases)
	c.AddSet("engines", "concurrent-"+kind)
	fp := ""
	if okWrites > 1 {
		fp = fmt.Sprintf("conc/%s/%d/%d", kind, c.Index, len(ops))
	}
	c.AddExecution(fp)
}
