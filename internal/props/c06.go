package props

import (
	"bytes"
	"context"
	"errors"
	"fmt"
	"sort"
	"strings"
	"sync"
	"sync/atomic"
	"time"

	proto "github.com/kubewharf/kubebrain-client/api/v2rpc"

	"github.com/kubewharf/kubebrain/pkg/backend"

	"verif/internal/harness"
)

// C06 — list-then-watch reconstructs the store. Pure client-boundary check: List at R, Watch from
// R+1, List at R'; a sentinel write makes "all events <= R' have arrived" a logical fact.

var c06Engines = []string{"memkv", "badger", "tikv", "memkv"}

func init() {
	Registry["C06"] = &Prop{
		Plan: func(tier string) Plan {
			return Plan{Level: "exploration", NCases: pick(tier, 240, 40000), Batch: 3, CaseTimeout: 180,
				Rule: "one case = 2-4 writers (create/update/delete with Get-refreshed and stale expectations => successes and failures), one compactor issuing Compact(committed-lag), and 2-4 observers each looping {List(P,0)->(R,kvs); Watch(P,R+1); pause; List(P,0)->(R',kvs'); sentinel write; wait for the sentinel's event}, event-cache size 64 or default, engines memkv/Badger/TiKV mock. " +
					"oracle = apply(kvs, delivered events with revision <= R') == kvs' exactly (key -> value, mod revision); refused/closed watches restart the loop. " +
					"non-trivial = observer loop in which >=1 event was applied between R and R' while >=1 compaction ran and >=1 write failed; distinct by (engine, cache, per-loop applied-event counts)",
				Assumptions: []string{"R and R' are response headers; the sentinel's event (revision > R') arriving proves that every event <= R' has arrived, because events are delivered in revision order (C05)"},
				MinConcl:    pick(tier, 180, 30000)}
		},
		Name: func(c *harness.Case) string { return "ltw-" + c06Engines[c.Index%len(c06Engines)] },
		Run:  runC06,
	}
}

func runC06(c *harness.Case) { runC06onEngine(c, c06Engines[c.Index%len(c06Engines)]) }

func runC06onEngine(c *harness.Case, kind string) {
	r := c.Rng
	cache := []int{64, 0, 8}[r.Intn(3)]
	eng, err := harness.NewEngine(kind)
	if err != nil {
		c.Inconclusive(err.Error())
		return
	}
	defer eng.Close()
	w := harness.NewWrap(eng.KV)
	delaySeed := r.Int63()
	w.BeforeCommit = func(b *harness.BatchInfo) {
		x := uint64(delaySeed) ^ uint64(b.Seq)*0x9e3779b97f4a7c15
		x ^= x >> 29
		if d := x % 300; d > 0 {
			time.Sleep(time.Duration(d) * time.Microsecond)
		}
	}
	var nDelFault int64
	if c.Index%2 == 1 {
		// every other case: about one in eight of compaction's deletes is refused by the engine with a plain error (not a
		// conflict, not an unknown outcome) - the compaction may leave garbage behind, reads and events must not change
		var delSeq uint64
		w.DelFault = func(kind string, key []byte) error {
			x := uint64(delaySeed)*131 ^ atomic.AddUint64(&delSeq, 1)*0xd6e8feb86659fd93
			x ^= x >> 32
			if x%8 == 0 {
				atomic.AddInt64(&nDelFault, 1)
				return errors.New("injected engine error on delete")
			}
			return nil
		}
	}
	n := harness.NewNode(harness.NodeOpts{KV: w, Config: backend.Config{WatchCacheSize: cache}, NoIdleYield: c.Index%5 == 2})
	defer n.Retire()
	prefixes := []string{harness.Prefix + "/p/", harness.Prefix + "/p/a/", harness.Prefix + "/q/"}
	keys := []string{"/p/a/x", "/p/a/y", "/p/b", "/q/z", "/p/c", "/q/w"}
	var stop int32
	var wg sync.WaitGroup
	var nFail, nSucc, nCompact int64
	var wmu sync.Mutex
	var wlog []string
	nWriters := 2 + r.Intn(3)
	for wi := 0; wi < nWriters; wi++ {
		wg.Add(1)
		seed := r.Int63()
		go func(wi int) {
			defer wg.Done()
			rr := newRand(seed)
			for i := 0; atomic.LoadInt32(&stop) == 0; i++ {
				key := harness.Prefix + keys[rr.Intn(len(keys))]
				g, err := n.Get(key, 0)
				if err != nil {
					continue
				}
				var op harness.SeqOp
				val := []byte(fmt.Sprintf("w%d-%d", wi, i))
				switch x := rr.Intn(10); {
				case g.Kv == nil:
					op = harness.SeqOp{Kind: "create", Key: key, Val: val}
				case x < 6:
					op = harness.SeqOp{Kind: "update", Key: key, Val: val, Exp: g.Kv.Revision}
				case x < 7:
					op = harness.SeqOp{Kind: "update", Key: key, Val: val, Exp: g.Kv.Revision - 1}
				case x < 9:
					op = harness.SeqOp{Kind: "delete", Key: key, Exp: g.Kv.Revision}
				default:
					op = harness.SeqOp{Kind: "delete", Key: key}
				}
				out := n.Do(op)
				wmu.Lock()
				wlog = append(wlog, fmt.Sprintf("w%d %s -> %s", wi, op, out))
				wmu.Unlock()
				if out.Err == "" && out.Succeeded {
					atomic.AddInt64(&nSucc, 1)
				} else {
					atomic.AddInt64(&nFail, 1)
				}
				if rr.Intn(3) == 0 {
					time.Sleep(time.Duration(rr.Intn(200)) * time.Microsecond)
				}
			}
		}(wi)
	}
	wg.Add(1)
	compSeed := r.Int63()
	go func() {
		defer wg.Done()
		rr := newRand(compSeed)
		for atomic.LoadInt32(&stop) == 0 {
			cur := n.Committed()
			lag := uint64(rr.Intn(40))
			if cur > n.Start+lag {
				if _, err := n.B.Compact(harness.Ctx, cur-lag); err == nil {
					atomic.AddInt64(&nCompact, 1)
				}
			}
			time.Sleep(time.Duration(200+rr.Intn(800)) * time.Microsecond)
		}
	}()

	nObs := 2 + r.Intn(3)
	loops := 4
	var owg sync.WaitGroup
	var mu sync.Mutex
	var loopVec []int
	var sample []string
	nontrivial := false
	for oi := 0; oi < nObs; oi++ {
		owg.Add(1)
		seed := r.Int63()
		go func(oi int) {
			defer owg.Done()
			rr := newRand(seed)
			P := prefixes[rr.Intn(len(prefixes))]
			end := string(backend.PrefixEnd([]byte(P)))
			sentKey := P + fmt.Sprintf("zz-sentinel-%d", oi)
			var sentRev uint64
			done := 0
			for attempt := 0; attempt < 40 && done < loops; attempt++ {
				l1, err := n.List(P, end, 0, 0)
				if err != nil {
					continue
				}
				R := l1.Header.GetRevision()
				compBefore := atomic.LoadInt64(&nCompact)
				failBefore := atomic.LoadInt64(&nFail)
				if rr.Intn(2) == 0 {
					// the client takes its time between the list and the watch: R+1 then lies well inside the event cache
					// and the watch begins with a catch-up while writes go on
					time.Sleep(time.Duration(rr.Intn(2500)) * time.Microsecond)
				}
				ctx, cancel := context.WithCancel(context.Background())
				ch, err := n.B.Watch(ctx, P, R+1)
				if err != nil {
					cancel()
					c.Stat("watches_refused", 1)
					time.Sleep(200 * time.Microsecond)
					continue
				}
				time.Sleep(time.Duration(rr.Intn(3000)) * time.Microsecond)
				l2, err := n.List(P, end, 0, 0)
				if err != nil {
					cancel()
					continue
				}
				R2 := l2.Header.GetRevision()
				// sentinel: its revision is dealt after everything committed at R'
				var out harness.Outcome
				if sentRev == 0 {
					out = n.Do(harness.SeqOp{Kind: "create", Key: sentKey, Val: []byte("s")})
				} else {
					out = n.Do(harness.SeqOp{Kind: "update", Key: sentKey, Val: []byte(fmt.Sprintf("s%d", attempt)), Exp: sentRev})
				}
				if out.Err != "" || !out.Succeeded {
					cancel()
					c.Inconclusive("sentinel write failed: " + out.String())
					return
				}
				sentRev = out.Rev
				var events []*proto.Event
				closed := false
				deadline := time.After(60 * time.Second)
			collect:
				for {
					select {
					case b, ok := <-ch:
						if !ok {
							closed = true
							break collect
						}
						events = append(events, b...)
						if b[len(b)-1].Revision >= sentRev {
							break collect
						}
					case <-deadline:
						cancel()
						c.Inconclusive("watchdog waiting for the sentinel event")
						return
					}
				}
				cancel()
				if closed {
					c.Stat("watches_closed", 1)
					continue
				}
				// apply events <= R' to the first list
				state := map[string]*proto.KeyValue{}
				for _, kv := range l1.Kvs {
					state[string(kv.Key)] = kv
				}
				applied := 0
				var evs []string
				for _, ev := range events {
					if ev.Revision > R2 {
						continue
					}
					applied++
					evs = append(evs, evStr(ev))
					if !strings.HasPrefix(string(ev.Kv.Key), P) {
						c.Violatef("C06 event-outside-prefix", nil, "watch on %q delivered %s", P, evStr(ev))
					}
					if ev.Type == proto.Event_DELETE {
						delete(state, string(ev.Kv.Key))
					} else {
						state[string(ev.Kv.Key)] = &proto.KeyValue{Key: ev.Kv.Key, Value: ev.Kv.Value, Revision: ev.Revision}
					}
				}
				var got []*proto.KeyValue
				for _, kv := range state {
					got = append(got, kv)
				}
				sort.Slice(got, func(i, j int) bool { return bytes.Compare(got[i].Key, got[j].Key) < 0 })
				same := len(got) == len(l2.Kvs)
				if same {
					for i := range got {
						if !bytes.Equal(got[i].Key, l2.Kvs[i].Key) || !bytes.Equal(got[i].Value, l2.Kvs[i].Value) || got[i].Revision != l2.Kvs[i].Revision {
							same = false
						}
					}
				}
				if !same {
					var allEv []string
					for _, ev := range events {
						allEv = append(allEv, evStr(ev))
					}
					wmu.Lock()
					var wl []string
					for _, l := range wlog {
						if strings.Contains(l, P) {
							wl = append(wl, l)
						}
					}
					wmu.Unlock()
					if len(wl) > 150 {
						wl = wl[len(wl)-150:]
					}
					c.Violatef("C06 list-plus-events-differs-from-later-list", map[string]interface{}{"engine": kind, "cache_size": cache, "prefix": P, "R": R, "R2": R2,
						"list_at_R": kvStr(l1.Kvs), "events_applied": evs, "all_events_received": allEv, "writer_log_under_prefix": wl, "reconstructed": kvStr(got), "list_at_R2": kvStr(l2.Kvs)},
						"prefix %q: List at R=%d plus the %d delivered events with revision in (%d,%d] gives %s; the List served at R'=%d is %s", P, R, applied, R, R2, kvStr(got), R2, kvStr(l2.Kvs))
					return
				}
				done++
				mu.Lock()
				loopVec = append(loopVec, applied)
				if applied > 0 && atomic.LoadInt64(&nCompact) > compBefore && atomic.LoadInt64(&nFail) > failBefore {
					nontrivial = true
				}
				if len(sample) < 4 {
					sample = append(sample, fmt.Sprintf("observer %d prefix %q R=%d R'=%d listed=%d events_applied=%d listed'=%d", oi, P, R, R2, len(l1.Kvs), applied, len(l2.Kvs)))
				}
				mu.Unlock()
				c.Stat("observer_loops_checked", 1)
				c.Stat("events_applied", int64(applied))
			}
		}(oi)
	}
	owg.Wait()
	atomic.StoreInt32(&stop, 1)
	wg.Wait()
	c.Stat("successful_writes", atomic.LoadInt64(&nSucc))
	c.Stat("failed_writes", atomic.LoadInt64(&nFail))
	c.Stat("compactions", atomic.LoadInt64(&nCompact))
	c.Stat("compaction_deletes_refused_by_the_engine", atomic.LoadInt64(&nDelFault))
	c.AddSet("engines", kind)
	c.AddSet("cache_sizes", fmt.Sprint(cache))
	sort.Ints(loopVec)
	c.Fingerprint(nontrivial, kind, cache, loopVec)
	if c.Index < 4 {
		c.R.Sample = map[string]interface{}{"engine": kind, "cache_size": cache, "writers": nWriters, "observers": nObs, "loops": sample}
	}
}
