package props

import (
	"context"
	"io"
	"net"

	pb "github.com/kubewharf/kubebrain-client/api/v2rpc"
	"go.etcd.io/etcd/api/v3/etcdserverpb"
	"google.golang.org/grpc"

	"github.com/kubewharf/kubebrain/pkg/metrics"
	"github.com/kubewharf/kubebrain/pkg/server/brain"
	"github.com/kubewharf/kubebrain/pkg/server/etcd"
)

// etcdAPI / brainAPI are the handler subsets the fuzz workloads call; they are satisfied by the real servers
// (in-process) and by adapters that go through a real gRPC connection with the production interceptors.
type etcdAPI interface {
	Txn(ctx context.Context, r *etcdserverpb.TxnRequest) (*etcdserverpb.TxnResponse, error)
	Range(ctx context.Context, r *etcdserverpb.RangeRequest) (*etcdserverpb.RangeResponse, error)
	Watch(ws etcdserverpb.Watch_WatchServer) error
	LeaseGrant(ctx context.Context, r *etcdserverpb.LeaseGrantRequest) (*etcdserverpb.LeaseGrantResponse, error)
	LeaseRevoke(ctx context.Context, r *etcdserverpb.LeaseRevokeRequest) (*etcdserverpb.LeaseRevokeResponse, error)
	LeaseTimeToLive(ctx context.Context, r *etcdserverpb.LeaseTimeToLiveRequest) (*etcdserverpb.LeaseTimeToLiveResponse, error)
	Compact(ctx context.Context, r *etcdserverpb.CompactionRequest) (*etcdserverpb.CompactionResponse, error)
	Put(ctx context.Context, r *etcdserverpb.PutRequest) (*etcdserverpb.PutResponse, error)
	DeleteRange(ctx context.Context, r *etcdserverpb.DeleteRangeRequest) (*etcdserverpb.DeleteRangeResponse, error)
}

type brainAPI interface {
	Create(ctx context.Context, r *pb.CreateRequest) (*pb.CreateResponse, error)
	Update(ctx context.Context, r *pb.UpdateRequest) (*pb.UpdateResponse, error)
	Delete(ctx context.Context, r *pb.DeleteRequest) (*pb.DeleteResponse, error)
	Compact(ctx context.Context, r *pb.CompactRequest) (*pb.CompactResponse, error)
	Get(ctx context.Context, r *pb.GetRequest) (*pb.GetResponse, error)
	Range(ctx context.Context, r *pb.RangeRequest) (*pb.RangeResponse, error)
	Count(ctx context.Context, r *pb.CountRequest) (*pb.CountResponse, error)
	ListPartition(ctx context.Context, r *pb.ListPartitionRequest) (*pb.ListPartitionResponse, error)
	RangeStream(r *pb.RangeRequest, s pb.Read_RangeStreamServer) error
	Watch(r *pb.WatchRequest, s pb.Watch_WatchServer) error
}

var _ etcdAPI = (*etcd.RPCServer)(nil)
var _ brainAPI = (*brain.Server)(nil)

// grpcNode serves the real servers on a loopback listener with the metrics client's gRPC options
// (the production interceptors) and offers the same API through real gRPC clients.
type grpcNode struct {
	gs   *grpc.Server
	conn *grpc.ClientConn
	addr string
	etcdGRPC
	brainGRPC
}

type etcdGRPC struct {
	kv    etcdserverpb.KVClient
	watch etcdserverpb.WatchClient
	lease etcdserverpb.LeaseClient
}

type brainGRPC struct {
	read  pb.ReadClient
	write pb.WriteClient
	watch pb.WatchClient
}

func newGRPCNode(es *etcd.RPCServer, bs *brain.Server, m metrics.Metrics) (*grpcNode, error) {
	return newGRPCNodeFor(func(gs *grpc.Server) {
		es.Register(gs)
		bs.Register(gs)
	}, m)
}

// newGRPCNodeFor serves whatever register puts on the server (e.g. server.Server.RegisterClient of a full node).
func newGRPCNodeFor(register func(gs *grpc.Server), m metrics.Metrics) (*grpcNode, error) {
	lis, err := net.Listen("tcp", "127.0.0.1:0")
	if err != nil {
		return nil, err
	}
	gs := grpc.NewServer(m.GetGrpcServerOption()...)
	register(gs)
	go gs.Serve(lis)
	conn, err := grpc.Dial(lis.Addr().String(), grpc.WithInsecure(), grpc.WithDefaultCallOptions(grpc.MaxCallRecvMsgSize(64<<20), grpc.MaxCallSendMsgSize(64<<20)))
	if err != nil {
		gs.Stop()
		return nil, err
	}
	return &grpcNode{gs: gs, conn: conn, addr: lis.Addr().String(),
		etcdGRPC:  etcdGRPC{kv: etcdserverpb.NewKVClient(conn), watch: etcdserverpb.NewWatchClient(conn), lease: etcdserverpb.NewLeaseClient(conn)},
		brainGRPC: brainGRPC{read: pb.NewReadClient(conn), write: pb.NewWriteClient(conn), watch: pb.NewWatchClient(conn)}}, nil
}

func (g *grpcNode) close() {
	g.conn.Close()
	g.gs.Stop()
}

func (e etcdGRPC) Txn(ctx context.Context, r *etcdserverpb.TxnRequest) (*etcdserverpb.TxnResponse, error) {
	return e.kv.Txn(ctx, r)
}
func (e etcdGRPC) Range(ctx context.Context, r *etcdserverpb.RangeRequest) (*etcdserverpb.RangeResponse, error) {
	return e.kv.Range(ctx, r)
}
func (e etcdGRPC) Compact(ctx context.Context, r *etcdserverpb.CompactionRequest) (*etcdserverpb.CompactionResponse, error) {
	return e.kv.Compact(ctx, r)
}
func (e etcdGRPC) Put(ctx context.Context, r *etcdserverpb.PutRequest) (*etcdserverpb.PutResponse, error) {
	return e.kv.Put(ctx, r)
}
func (e etcdGRPC) DeleteRange(ctx context.Context, r *etcdserverpb.DeleteRangeRequest) (*etcdserverpb.DeleteRangeResponse, error) {
	return e.kv.DeleteRange(ctx, r)
}
func (e etcdGRPC) LeaseGrant(ctx context.Context, r *etcdserverpb.LeaseGrantRequest) (*etcdserverpb.LeaseGrantResponse, error) {
	return e.lease.LeaseGrant(ctx, r)
}
func (e etcdGRPC) LeaseRevoke(ctx context.Context, r *etcdserverpb.LeaseRevokeRequest) (*etcdserverpb.LeaseRevokeResponse, error) {
	return e.lease.LeaseRevoke(ctx, r)
}
func (e etcdGRPC) LeaseTimeToLive(ctx context.Context, r *etcdserverpb.LeaseTimeToLiveRequest) (*etcdserverpb.LeaseTimeToLiveResponse, error) {
	return e.lease.LeaseTimeToLive(ctx, r)
}

// Watch bridges the harness's fake server-side stream to a real client stream: what the harness "receives" as a
// server is sent by the client, what the real server sends is handed to the fake stream's Send.
func (e etcdGRPC) Watch(ws etcdserverpb.Watch_WatchServer) error {
	ctx, cancel := context.WithCancel(ws.Context())
	defer cancel()
	st, err := e.watch.Watch(ctx)
	if err != nil {
		return err
	}
	go func() {
		for {
			req, err := ws.Recv()
			if err != nil {
				st.CloseSend()
				return
			}
			if st.Send(req) != nil {
				return
			}
		}
	}()
	for {
		resp, err := st.Recv()
		if err != nil {
			if err == io.EOF {
				return nil
			}
			return err
		}
		ws.Send(resp)
	}
}

func (b brainGRPC) Create(ctx context.Context, r *pb.CreateRequest) (*pb.CreateResponse, error) {
	return b.write.Create(ctx, r)
}
func (b brainGRPC) Update(ctx context.Context, r *pb.UpdateRequest) (*pb.UpdateResponse, error) {
	return b.write.Update(ctx, r)
}
func (b brainGRPC) Delete(ctx context.Context, r *pb.DeleteRequest) (*pb.DeleteResponse, error) {
	return b.write.Delete(ctx, r)
}
func (b brainGRPC) Compact(ctx context.Context, r *pb.CompactRequest) (*pb.CompactResponse, error) {
	return b.write.Compact(ctx, r)
}
func (b brainGRPC) Get(ctx context.Context, r *pb.GetRequest) (*pb.GetResponse, error) {
	return b.read.Get(ctx, r)
}
func (b brainGRPC) Range(ctx context.Context, r *pb.RangeRequest) (*pb.RangeResponse, error) {
	return b.read.Range(ctx, r)
}
func (b brainGRPC) Count(ctx context.Context, r *pb.CountRequest) (*pb.CountResponse, error) {
	return b.read.Count(ctx, r)
}
func (b brainGRPC) ListPartition(ctx context.Context, r *pb.ListPartitionRequest) (*pb.ListPartitionResponse, error) {
	return b.read.ListPartition(ctx, r)
}
func (b brainGRPC) RangeStream(r *pb.RangeRequest, s pb.Read_RangeStreamServer) error {
	st, err := b.read.RangeStream(s.Context(), r)
	if err != nil {
		return err
	}
	for {
		m, err := st.Recv()
		if err != nil {
			if err == io.EOF {
				return nil
			}
			return err
		}
		s.Send(m)
	}
}
func (b brainGRPC) Watch(r *pb.WatchRequest, s pb.Watch_WatchServer) error {
	st, err := b.watch.Watch(s.Context(), r)
	if err != nil {
		return err
	}
	for {
		m, err := st.Recv()
		if err != nil {
			if err == io.EOF {
				return nil
			}
			return err
		}
		s.Send(m)
	}
}
