package props

import (
	"bytes"
	"errors"
	"fmt"
	"math/rand"
	"strings"
	"sync"
	"sync/atomic"

	"github.com/kubewharf/kubebrain/pkg/backend"
	"github.com/kubewharf/kubebrain/pkg/storage"

	"verif/internal/harness"
)

// C07 — compaction never changes what a read at or above the compaction revision sees.
// Fault enumeration: for every position at which a compaction delete can fail, and for every
// position after which the compactor can die, on a freshly rebuilt identical store.

var c07Engines = []string{"memkv", "tikv", "memkv+m", "badger", "tikv/split", "memkv/parts", "tikv/split", "tikv+m", "badger+m"}

const c07Chunks = 4

type c07Config struct {
	name    string
	skipped []string
}

var c07Configs = []c07Config{
	{"plain", nil},
	{"skipped", []string{harness.Prefix + "/skip"}},
	{"nested-skipped", []string{harness.Prefix + "/a", harness.Prefix + "/a/b"}},
	{"adjacent-skipped", []string{harness.Prefix + "/a", harness.Prefix + "/b"}},
}

func init() {
	Registry["C07"] = &Prop{
		Plan: func(tier string) Plan {
			return Plan{Level: "fault_enumeration", NCases: pick(tier, 16*c07Chunks, 1500*c07Chunks), Batch: 2, CaseTimeout: 300,
				Rule: "histories are PRNG sequential write scripts (multi-version keys, tombstones below/at/above R, re-created keys, keys in skipped prefixes and outside the node's prefix) rebuilt identically on a fresh engine for every execution (memkv, Badger, TiKV mock, in 3 of 9 histories behind the production storage metrics wrapper; in 3 of 9 histories the engine reports several partitions whose borders lie at index records, inside a key's versions or at unstored keys); " +
					"for EVERY delete call i=1..D that a clean Compact(R) of the history makes (D learned from a dry run; positions are split over 4 cases per history) two executions are made: (a) delete i fails (generic error; compare-and-delete calls also with a failed-compare error), (b) every delete from i on fails (compactor died after i-1 deletions) and a NEW backend is opened on the store; and where delete i removes an index record, (c) a client re-creates that key right before the removal (placed through the storage wrapper). " +
					"After each: all reads at revisions >= R (Get every key, List inside/outside the prefix, at R, at checkpoints above R and at latest) must equal the reference snapshot, then a clean Compact(R), the same reads again, then create/update/delete on every key against the reference; records outside the compaction ranges must be byte-identical. Every 5th history is instead the concurrent variant (writers on the keys being compacted while Compact runs). " +
					"evaluations = executions (history x position x mode); non-trivial+distinct = executions in which the injected fault actually fired, identified by (history, position, mode)",
				Assumptions: []string{"TTL expiry is inert here (TTL 1 h)", "reads overlapping a running compaction are not judged, only reads after it returned",
					"a compactor death is modelled as every later delete failing followed by a new backend over the same store"},
				MinConcl: pick(tier, 40, 4000)}
		},
		Name: func(c *harness.Case) string {
			h := c.Index / c07Chunks
			if h%5 == 4 {
				return fmt.Sprintf("concurrent-%s", c07Engines[h%len(c07Engines)])
			}
			return fmt.Sprintf("faults-h%d-chunk%d-%s-%s", h, c.Index%c07Chunks, c07Engines[h%len(c07Engines)], c07Configs[h%len(c07Configs)].name)
		},
		Run: runC07,
	}
}

type c07Hist struct {
	ops      []harness.SeqOp
	keys     []string
	cfg      c07Config
	compactI int   // Compact(R) is taken at the checkpoint after op compactI
	partSeed int64 // draws the partition borders of the engines that report several partitions
}

func genC07History(r *rand.Rand, cfg c07Config) *c07Hist {
	h := &c07Hist{cfg: cfg}
	names := []string{"/a", "/a/b", "/a/b/c", "/b", "/b/x", "/c", "/skip/s1", "/skip", "/skipx", "/ab"}
	perm := r.Perm(len(names))
	for i := 0; i < 4+r.Intn(4); i++ {
		h.keys = append(h.keys, harness.Prefix+names[perm[i]])
	}
	h.keys = append(h.keys, "/other/o1", harness.Prefix+"0zz", "/registr/y") // outside the node's prefix
	// the script is generated against a private model so that it is a pure function of the PRNG
	m := harness.NewModel()
	rev := uint64(1000)
	n := 25 + r.Intn(45)
	for i := 0; i < n; i++ {
		k := h.keys[r.Intn(len(h.keys))]
		live := m.Live(k)
		var op harness.SeqOp
		switch x := r.Intn(10); {
		case live == nil && x < 7:
			op = harness.SeqOp{Kind: "create", Key: k, Val: []byte(fmt.Sprintf("v%d", i))}
		case live == nil:
			op = harness.SeqOp{Kind: "update", Key: k, Val: []byte("x"), Exp: rev} // fails, consumes a revision
		case x < 5:
			op = harness.SeqOp{Kind: "update", Key: k, Val: []byte(fmt.Sprintf("v%d", i)), Exp: live.Rev}
		case x < 8:
			op = harness.SeqOp{Kind: "delete", Key: k, Exp: live.Rev}
		case x < 9:
			op = harness.SeqOp{Kind: "delete", Key: k}
		default:
			op = harness.SeqOp{Kind: "create", Key: k, Val: []byte("dup")} // fails
		}
		rev++
		if ok, _ := m.Predict(op); ok {
			if op.Kind == "delete" {
				m.Del(k, rev)
			} else {
				m.Put(k, rev, op.Val)
			}
		}
		h.ops = append(h.ops, op)
	}
	h.compactI = n/3 + r.Intn(n/2)
	h.partSeed = r.Int63()
	return h
}

type c07Store struct {
	eng *harness.Engine
	w   *harness.Wrap
	// what the backend sees: w, or the production metrics wrapper over w
	nodeKV storage.KvStorage
	rm     *harness.RecMetrics
	n      *harness.Node
	m      *harness.Model
	revs   []uint64 // checkpoint after each op
	R      uint64
	delN   int32 // delete calls seen during compaction
	fired  int32
	// fault plan
	failAt   int32 // 1-based position; 0 = none
	failFrom bool
	failErr  error
	// placement plan: call recreate(key) when delete call #recreateAt is the removal of an index record
	recreateAt int32
	recreate   func(key string)
	log        []string
	mu         sync.Mutex
}

func (s *c07Store) delFault(kind string, key []byte) error {
	i := atomic.AddInt32(&s.delN, 1)
	raw, rev, _ := coderC.Decode(key)
	if s.recreateAt != 0 && i == s.recreateAt && rev == 0 && s.recreate != nil {
		// placement: a client re-creates the (deleted) key after the scan has read its index record and just
		// before the compaction removes that record
		s.recreate(string(raw))
	}
	fail := s.failAt != 0 && (i == s.failAt || (s.failFrom && i >= s.failAt))
	s.mu.Lock()
	s.log = append(s.log, fmt.Sprintf("#%d %s %q@%d fail=%v", i, kind, raw, rev, fail))
	s.mu.Unlock()
	if fail {
		atomic.AddInt32(&s.fired, 1)
		if kind == "del" && errors.Is(s.failErr, storage.ErrCASFailed) {
			return errors.New("injected delete error") // an unconditional delete never reports a failed compare
		}
		return s.failErr
	}
	return nil
}

// build replays the history on a fresh engine; with check=true outcomes are compared with the model.
func buildC07(c *harness.Case, kind string, h *c07Hist) *c07Store {
	var eng *harness.Engine
	var kv storage.KvStorage
	if strings.Contains(kind, "/") {
		// the engine reports several partitions, with borders at index records, inside a key's versions or at keys
		// that are never stored (the same borders every time the history is rebuilt)
		var ok bool
		if kv, eng, _, ok = partitionedStore(c, newRand(h.partSeed), strings.Split(kind, "/")[0], h.keys, 1000, len(h.ops)); !ok {
			return nil
		}
	} else {
		var err error
		if eng, err = harness.NewEngine(strings.TrimSuffix(kind, "+m")); err != nil {
			c.Inconclusive(err.Error())
			return nil
		}
		kv = eng.KV
	}
	s := &c07Store{eng: eng, m: harness.NewModel()}
	s.w = harness.NewWrap(kv)
	s.w.DelFault = s.delFault
	var nodeKV storage.KvStorage = s.w
	var rm *harness.RecMetrics
	if harness.IsMetricsKind(kind) {
		// the production storage metrics wrapper sits between the backend and the (faulty) engine, as with
		// --enable-storage-metrics: the engine's errors have to come through it
		rm = harness.NewRecMetrics(true)
		nodeKV = harness.WithMetrics(s.w, rm)
	}
	s.nodeKV, s.rm = nodeKV, rm
	s.n = harness.NewNode(harness.NodeOpts{KV: nodeKV, Metrics: rm, Config: backend.Config{SkippedPrefixes: h.cfg.skipped, WatchCacheSize: 16}})
	for i, op := range h.ops {
		_, mis := s.n.ApplyChecked(s.m, op)
		if mis != "" {
			c.Inconclusive("history write disagreed with the reference (C03's subject): " + mis)
			s.close()
			return nil
		}
		s.revs = append(s.revs, s.n.Committed())
		if i == h.compactI {
			s.R = s.n.Committed()
		}
	}
	return s
}

func (s *c07Store) close() {
	s.n.Retire()
	s.eng.Close()
}

func isOutside(k string) bool { return !bytes.HasPrefix([]byte(k), []byte(harness.Prefix+"/")) }

// inCompactRange tells whether key lies in a range the configured compaction scans.
func inCompactRange(k string, cfg c07Config) bool {
	if isOutside(k) {
		return false
	}
	// borders: prefix/ .. PrefixEnd(prefix/) and for every skipped prefix p: p/ .. PrefixEnd(p/) are toggled
	in := true
	for _, p := range cfg.skipped {
		if bytes.HasPrefix([]byte(k), []byte(p+"/")) {
			in = !in
		}
	}
	return in
}

// reads compares every read at revisions >= R with the reference.
func (s *c07Store) reads(c *harness.Case, n *harness.Node, h *c07Hist, phase string, wit func() interface{}) bool {
	revs := []uint64{s.R, s.R + 1, n.Committed(), 0}
	for i := h.compactI + 1; i < len(s.revs); i += 1 + len(s.revs)/6 {
		revs = append(revs, s.revs[i])
	}
	ranges := [][2]string{{harness.Prefix + "/", string(backend.PrefixEnd([]byte(harness.Prefix + "/")))}, {"/other/", "/other0"}, {"/registr/", harness.Prefix + "1"}}
	for _, R := range revs {
		eff := R
		if R == 0 {
			eff = n.Committed()
		}
		if eff < s.R {
			continue
		}
		for _, k := range h.keys {
			g, err := n.Get(k, R)
			c.Stat("reads", 1)
			want := s.m.At(k, eff)
			if err != nil {
				c.Violatef("C07 get-error-after-compaction", wit(), "%s: Get(%q,rev=%d) error %v", phase, k, R, err)
				return false
			}
			ok := (want == nil && g.Kv == nil) || (want != nil && g.Kv != nil && bytes.Equal(want.Val, g.Kv.Value) && want.Rev == g.Kv.Revision)
			if !ok {
				got := "absent"
				if g.Kv != nil {
					got = fmt.Sprintf("(%q,%d)", g.Kv.Value, g.Kv.Revision)
				}
				sig := "C07 read-changed-by-compaction"
				switch {
				case want == nil && g.Kv != nil:
					sig += " deleted-key-reappeared"
				case want != nil && g.Kv == nil:
					sig += " live-key-vanished"
				}
				if !inCompactRange(k, h.cfg) {
					sig += " key-outside-compaction-ranges"
				}
				c.Violatef(sig, wit(), "%s: Get(%q,rev=%d) = %s; before the compaction (reference) it was %s", phase, k, R, got, verS(want))
				return false
			}
		}
		for _, rg := range ranges {
			l, err := n.List(rg[0], rg[1], R, 0)
			c.Stat("reads", 1)
			if err != nil {
				c.Violatef("C07 list-error-after-compaction", wit(), "%s: List(%q,%q,rev=%d) error %v", phase, rg[0], rg[1], R, err)
				return false
			}
			want := s.m.Snapshot(rg[0], rg[1], eff)
			if !sameKVs(want, l.Kvs) {
				c.Violatef("C07 read-changed-by-compaction what=list", wit(), "%s: List(%q,%q,rev=%d) = %s; before the compaction (reference) it was %s", phase, rg[0], rg[1], R, kvStr(l.Kvs), mkvStr(want))
				return false
			}
		}
	}
	return true
}

// writesAfter performs model-chosen writes on every key and compares the outcomes.
func (s *c07Store) writesAfter(c *harness.Case, n *harness.Node, h *c07Hist, r *rand.Rand, wit func() interface{}) bool {
	for _, k := range h.keys {
		var ops []harness.SeqOp
		if live := s.m.Live(k); live != nil {
			ops = append(ops, harness.SeqOp{Kind: "update", Key: k, Val: []byte("after"), Exp: live.Rev - 1}) // stale: must fail
			ops = append(ops, harness.SeqOp{Kind: "update", Key: k, Val: []byte("after"), Exp: live.Rev})
			if r.Intn(2) == 0 {
				ops = append(ops, harness.SeqOp{Kind: "delete", Key: k})
				ops = append(ops, harness.SeqOp{Kind: "create", Key: k, Val: []byte("again")})
			}
		} else {
			ops = append(ops, harness.SeqOp{Kind: "delete", Key: k}) // must fail: absent
			ops = append(ops, harness.SeqOp{Kind: "create", Key: k, Val: []byte("after")})
			ops = append(ops, harness.SeqOp{Kind: "create", Key: k, Val: []byte("dup")}) // must fail
		}
		for _, op := range ops {
			out, mis := n.ApplyChecked(s.m, op)
			c.Stat("writes_after_compaction", 1)
			if mis != "" {
				c.Violatef("C07 key-not-writable-normally-after-compaction kind="+op.Kind, wit(), "after the compaction: %s (answer: %s)", mis, out)
				return false
			}
		}
	}
	return true
}

func dumpOutside(s *c07Store, h *c07Hist) map[string]string {
	out := map[string]string{}
	all, _ := harness.Dump(s.eng.KV, []byte{0}, []byte{0xff, 0xff, 0xff, 0xff, 0xff})
	for _, kv := range all {
		if len(kv.Key) < 13 {
			continue
		}
		raw, _, err := coderC.Decode(kv.Key)
		if err != nil {
			continue
		}
		if !inCompactRange(string(raw), h.cfg) {
			out[string(kv.Key)] = string(kv.Val)
		}
	}
	return out
}

func runC07(c *harness.Case) {
	hIdx := c.Index / c07Chunks
	chunk := c.Index % c07Chunks
	kind := c07Engines[hIdx%len(c07Engines)]
	hr := harness.NewCase("C07-history", c.Tier, c.Seed, hIdx).Rng // the history is shared by the chunks of one history
	if hIdx%5 == 4 {
		if chunk == 0 {
			runC07Concurrent(c, kind)
		}
		// the concurrent variant uses one case per history; the other chunks have nothing to do
		return
	}
	cfg := c07Configs[hIdx%len(c07Configs)]
	h := genC07History(hr, cfg)
	c.AddSet("configurations", cfg.name)
	c.AddSet("engines", kind)

	// dry run: learn D and validate the clean compaction
	s := buildC07(c, kind, h)
	if s == nil {
		return
	}
	witFor := func(s *c07Store, what string) func() interface{} {
		return func() interface{} {
			var ops []string
			for _, op := range h.ops {
				ops = append(ops, op.String())
			}
			return map[string]interface{}{"engine": kind, "config": cfg.name, "skipped_prefixes": cfg.skipped, "history": ops, "compact_revision": s.R, "fault": what, "delete_calls": s.log}
		}
	}
	outsideBefore := dumpOutside(s, h)
	if !s.reads(c, s.n, h, "before compaction", witFor(s, "none")) {
		s.close()
		return // the reference and the store disagree before any compaction: C03's subject
	}
	if _, err := s.n.B.Compact(harness.Ctx, s.R); err != nil {
		c.Violatef("C07 compact-error", witFor(s, "none")(), "clean Compact(%d) error %v", s.R, err)
		s.close()
		return
	}
	D := int(atomic.LoadInt32(&s.delN))
	idxPos := map[int]bool{}
	for _, l := range s.log {
		var n int
		var kindS string
		if _, err := fmt.Sscanf(l, "#%d %s", &n, &kindS); err == nil && strings.Contains(l, "@0 ") {
			idxPos[n] = true
		}
	}
	ok := s.reads(c, s.n, h, "after clean Compact", witFor(s, "none"))
	outsideAfter := dumpOutside(s, h)
	if ok && !sameMap(outsideBefore, outsideAfter) {
		c.Violatef("C07 record-outside-compaction-ranges-touched", witFor(s, "none")(), "records outside the configured compaction ranges differ after a clean Compact(%d): %s", s.R, diffMap(outsideBefore, outsideAfter))
		ok = false
	}
	if ok && chunk == 0 {
		ok = s.writesAfter(c, s.n, h, c.Rng, witFor(s, "none"))
		c.AddExecution(fmt.Sprintf("h%d/clean", hIdx))
	}
	s.close()
	c.Stat("delete_calls_in_clean_compaction", int64(D))
	if !ok {
		return
	}
	// fault enumeration over this chunk's positions
	for pos := 1; pos <= D; pos++ {
		if pos%c07Chunks != chunk {
			continue
		}
		type mode struct {
			name    string
			from    bool
			err     error
			restart bool
		}
		modes := []mode{{"fail-one-generic", false, errors.New("injected delete error"), false},
			{"die-after", true, errors.New("injected: compactor dead"), true}}
		if pos%2 == 0 {
			modes = append(modes, mode{"fail-one-cas", false, storage.ErrCASFailed, false})
		}
		// third kind of execution at this position: a concurrent re-create placed right before an index-record removal
		if idxPos[pos] {
			s := buildC07(c, kind, h)
			if s == nil {
				return
			}
			what := fmt.Sprintf("re-create placed before index removal #%d of %d", pos, D)
			wit := witFor(s, what)
			s.recreateAt = int32(pos)
			placedKey := ""
			s.recreate = func(key string) {
				if s.m.Live(key) != nil {
					return
				}
				out := s.n.Do(harness.SeqOp{Kind: "create", Key: key, Val: []byte("recreated-during-compaction")})
				if out.Err == "" && out.Succeeded {
					s.m.Put(key, out.Rev, []byte("recreated-during-compaction"))
					placedKey = key
				}
			}
			_, _ = s.n.B.Compact(harness.Ctx, s.R)
			s.recreateAt = 0
			good := true
			if placedKey != "" {
				s.n.WaitCommitted(s.n.Dealt(), 30e9)
				c.Stat("recreates_placed_inside_compaction", 1)
				// the acknowledged re-create must be durable and the key writable with normal semantics
				g, gerr := s.n.Get(placedKey, 0)
				if gerr != nil || g.Kv == nil || string(g.Kv.Value) != "recreated-during-compaction" {
					c.Violatef("C07 write-acknowledged-during-compaction-lost", wit(), "key %q was re-created (acknowledged) while Compact(%d) ran; afterwards Get = %v %v", placedKey, s.R, g.GetKv(), gerr)
					good = false
				}
				if good {
					good = s.writesAfter(c, s.n, h, c.Rng, wit)
				}
				c.AddExecution(fmt.Sprintf("h%d/recreate-before-index-removal/%d", hIdx, pos))
			} else {
				c.AddExecution("")
			}
			s.close()
			if !good {
				return
			}
		}
		for _, md := range modes {
			s := buildC07(c, kind, h)
			if s == nil {
				return
			}
			what := fmt.Sprintf("%s at delete #%d of %d", md.name, pos, D)
			wit := witFor(s, what)
			s.failAt, s.failFrom, s.failErr = int32(pos), md.from, md.err
			_, _ = s.n.B.Compact(harness.Ctx, s.R)
			fired := atomic.LoadInt32(&s.fired) > 0
			s.failAt = 0
			n := s.n
			var n2 *harness.Node
			if md.restart {
				// the compactor died: a new backend takes over the same store at the old read revision
				n2 = harness.NewNode(harness.NodeOpts{KV: s.nodeKV, Metrics: s.rm, StartRev: s.n.Committed(), Config: backend.Config{SkippedPrefixes: h.cfg.skipped, WatchCacheSize: 16}})
				n = n2
			}
			good := s.reads(c, n, h, "after Compact with "+what, wit)
			if good {
				if _, err := n.B.Compact(harness.Ctx, s.R); err != nil {
					c.Violatef("C07 compact-error", wit(), "clean Compact(%d) after %s: error %v", s.R, what, err)
					good = false
				}
			}
			if good {
				good = s.reads(c, n, h, "after "+what+" and a second, clean Compact", wit)
			}
			if good {
				if oa := dumpOutside(s, h); !sameMap(outsideBefore, oa) {
					c.Violatef("C07 record-outside-compaction-ranges-touched", wit(), "records outside the compaction ranges differ: %s", diffMap(outsideBefore, oa))
					good = false
				}
			}
			if good {
				good = s.writesAfter(c, n, h, c.Rng, wit)
			}
			fp := ""
			if fired {
				fp = fmt.Sprintf("h%d/%s/%d", hIdx, md.name, pos)
				c.Stat("faults_fired", 1)
			}
			c.AddExecution(fp)
			if n2 != nil {
				n2.Retire()
			}
			s.close()
			if !good {
				return
			}
		}
	}
	// one more execution per chunk: the compaction's own scan meets a single transient iterator error at a PRNG-drawn
	// step (the scanner retries that partition after its 1 s backoff); whatever the retry does, it must know as much
	// about the key it was in the middle of as the first attempt did
	{
		s := buildC07(c, kind, h)
		if s == nil {
			return
		}
		recs, derr := harness.Dump(s.eng.KV, coderC.EncodeObjectKey([]byte(harness.Prefix+"/"), 0), coderC.EncodeObjectKey(backend.PrefixEnd([]byte(harness.Prefix+"/")), 0))
		if derr == nil && len(recs) > 1 {
			N := 1 + c.Rng.Intn(len(recs))
			what := fmt.Sprintf("one transient iterator error at step %d of a compaction scan (%d engine records)", N, len(recs))
			wit := witFor(s, what)
			var fired int32
			s.w.IterFault = func(start, end []byte, k int) error {
				if k == N && atomic.CompareAndSwapInt32(&fired, 0, 1) {
					return errors.New("injected transient iterator error")
				}
				return nil
			}
			_, _ = s.n.B.Compact(harness.Ctx, s.R)
			s.w.IterFault = nil
			good := s.reads(c, s.n, h, "after Compact with "+what, wit)
			if good {
				if _, err := s.n.B.Compact(harness.Ctx, s.R); err != nil {
					c.Violatef("C07 compact-error", wit(), "clean Compact(%d) after %s: error %v", s.R, what, err)
					good = false
				}
			}
			if good {
				good = s.reads(c, s.n, h, "after "+what+" and a second, clean Compact", wit)
			}
			if good {
				good = s.writesAfter(c, s.n, h, c.Rng, wit)
			}
			if atomic.LoadInt32(&fired) == 1 {
				c.Stat("compactions_with_a_transient_iterator_error", 1)
				c.AddExecution(fmt.Sprintf("h%d/iterator-error/%d", hIdx, N))
			}
			if !good {
				s.close()
				return
			}
		}
		s.close()
	}
	if c.Index < c07Chunks {
		var ops []string
		for _, op := range h.ops {
			ops = append(ops, op.String())
		}
		c.R.Sample = map[string]interface{}{"engine": kind, "config": cfg.name, "history": ops, "compact_after_op": h.compactI, "delete_calls_D": D, "chunk": chunk}
	}
}

func sameMap(a, b map[string]string) bool {
	if len(a) != len(b) {
		return false
	}
	for k, v := range a {
		if bv, ok := b[k]; !ok || bv != v {
			return false
		}
	}
	return true
}

func diffMap(a, b map[string]string) string {
	s := ""
	for k, v := range a {
		if bv, ok := b[k]; !ok {
			s += fmt.Sprintf(" removed %q", k)
		} else if bv != v {
			s += fmt.Sprintf(" changed %q", k)
		}
	}
	for k := range b {
		if _, ok := a[k]; !ok {
			s += fmt.Sprintf(" added %q", k)
		}
	}
	return s
}

// runC07Concurrent: writers re-creating/updating/deleting the keys being compacted while Compact runs.
func runC07Concurrent(c *harness.Case, kind string) {
	r := c.Rng
	cfg := concCfg{kind: kind, clients: 3 + r.Intn(4), keys: 2 + r.Intn(3), opsPer: 30 + r.Intn(30), maxDelayUs: 100,
		initStates: []string{"live", "deleted", "never"}}
	cr := newConcRun(c, cfg)
	if cr == nil {
		return
	}
	defer cr.close()
	var stop int32
	var floor uint64
	var cwg sync.WaitGroup
	compactions := int64(0)
	cwg.Add(1)
	cr2 := newRand(r.Int63())
	go func() {
		defer cwg.Done()
		for atomic.LoadInt32(&stop) == 0 {
			cur := cr.n.Committed()
			lag := uint64(cr2.Intn(5))
			if cur > cr.n.Start+lag {
				if resp, err := cr.n.B.Compact(harness.Ctx, cur-lag); err == nil {
					if f := resp.Header.GetRevision(); f > atomic.LoadUint64(&floor) {
						atomic.StoreUint64(&floor, f)
					}
					atomic.AddInt64(&compactions, 1)
				}
			}
		}
	}()
	cr.run(c)
	if cr.stalled {
		return
	}
	atomic.StoreInt32(&stop, 1)
	cwg.Wait()
	// a last compaction at the highest floor, then judge only reads after it returned
	F := atomic.LoadUint64(&floor)
	fm := cr.finalModel()
	wit := func() interface{} { return cr.witness("") }
	full := harness.Prefix + "/"
	fullEnd := string(backend.PrefixEnd([]byte(full)))
	for _, R := range []uint64{F, cr.n.Committed(), 0} {
		eff := R
		if R == 0 {
			eff = cr.n.Dealt()
			cr.n.WaitCommitted(eff, 30e9)
		}
		if eff < F || R > cr.n.Committed() {
			continue
		}
		for _, k := range cr.keys {
			g, err := cr.n.Get(k, R)
			want := fm.At(k, eff)
			if err != nil {
				c.Violatef("C07 get-error-after-compaction", wit(), "Get(%q,%d): %v", k, R, err)
				continue
			}
			ok := (want == nil && g.Kv == nil) || (want != nil && g.Kv != nil && bytes.Equal(want.Val, g.Kv.Value) && want.Rev == g.Kv.Revision)
			if !ok {
				got := "absent"
				if g.Kv != nil {
					got = fmt.Sprintf("(%q,%d)", g.Kv.Value, g.Kv.Revision)
				}
				c.Violatef("C07 read-changed-by-compaction concurrent-writers", wit(), "after concurrent writers and %d compactions (floor %d): Get(%q,rev=%d) = %s; acknowledged writes say %s", atomic.LoadInt64(&compactions), F, k, R, got, verS(want))
			}
		}
		l, err := cr.n.List(full, fullEnd, R, 0)
		if err != nil {
			c.Violatef("C07 list-error-after-compaction", wit(), "List(rev=%d): %v (floor %d)", R, err, F)
		} else if want := fm.Snapshot(full, fullEnd, eff); !sameKVs(want, l.Kvs) {
			c.Violatef("C07 read-changed-by-compaction concurrent-writers what=list", wit(), "List(rev=%d) = %s; acknowledged writes say %s (floor %d)", R, kvStr(l.Kvs), mkvStr(want), F)
		}
	}
	// every key stays writable with normal semantics
	for _, k := range cr.keys {
		var op harness.SeqOp
		if live := fm.Live(k); live != nil {
			op = harness.SeqOp{Kind: "update", Key: k, Val: []byte("after"), Exp: live.Rev}
		} else {
			op = harness.SeqOp{Kind: "create", Key: k, Val: []byte("after")}
		}
		out, mis := cr.n.ApplyChecked(fm, op)
		if mis != "" {
			c.Violatef("C07 key-not-writable-normally-after-compaction concurrent-writers", wit(), "%s (answer %s)", mis, out)
		}
	}
	c.Stat("concurrent_compactions", atomic.LoadInt64(&compactions))
	c.Stat("client_ops", int64(len(cr.ops)))
	c.AddSet("engines", kind)
	fp := ""
	if atomic.LoadInt64(&compactions) > 2 {
		fp = fmt.Sprintf("conc/%d/%s", c.Index, outcomeVector(cr))
	}
	c.AddExecution(fp)
}
