package props

import (
	"bytes"
	"context"
	"fmt"
	"io"
	"math/rand"
	"runtime"
	"sort"
	"strings"
	"sync"

	proto "github.com/kubewharf/kubebrain-client/api/v2rpc"

	"github.com/kubewharf/kubebrain/pkg/backend"
	"github.com/kubewharf/kubebrain/pkg/backend/coder"
	"github.com/kubewharf/kubebrain/pkg/storage"
	"github.com/kubewharf/kubebrain/pkg/storage/memkv"

	"verif/internal/harness"
)

// C10 — internal key encoding is reversible and order-preserving. Input generation with an
// oracle (the thread-free corner of the family): the real coder, the real memkv engine and the
// real Backend.List are driven with generated keys/revisions/bounds.

func init() {
	Registry["C10"] = &Prop{
		Plan: func(tier string) Plan {
			return Plan{Level: "exploration", NCases: pick(tier, 200, 40000), Batch: 4, CaseTimeout: 60,
				Rule: "one case = 2000 generated (key, revision) inputs over the alphabet bytes > '$' (empty, 1-byte, 0xff-terminated, all-0xff, prefix-related pairs, pairs differing in the last byte; revisions 0, 1, 2^63, 2^64-1, random) checked for round trip and pairwise order, " +
					"plus one key set loaded as index+version records into the real memkv engine and 60 raw ranges / prefixes iterated through the computed internal bounds (and through Backend.List for PrefixEnd bounds and raw ranges between stored keys, on memkv, on a TiKV mock pre-split into regions and on a memkv reporting several partitions); every 4th case runs 8 goroutines x 3000 concurrent round trips of keys of 0-12 bytes; every 4th case also compacts nodes configured with the key prefixes \"\" (the default), \"/\", with and without trailing slash, with a doubled slash and relative: exactly the records under the prefix must be reached. " +
					"non-trivial = case containing >=1 prefix-related pair, >=1 0xff-terminated key and >=1 extreme revision; distinct by input digest",
				Assumptions: []string{"keys are drawn from the documented alphabet only (every byte greater than '$')"},
				MinConcl:    pick(tier, 180, 38000)}
		},
		Name: func(c *harness.Case) string { return "encode" },
		Run:  runC10,
	}
}

func genKey(r *rand.Rand, pool [][]byte) []byte {
	alpha := func() byte { return byte(0x25 + r.Intn(0x100-0x25)) }
	switch r.Intn(12) {
	case 0:
		return []byte{}
	case 1:
		return []byte{alpha()}
	case 2:
		n := 1 + r.Intn(4)
		return bytes.Repeat([]byte{0xff}, n)
	case 3, 4:
		if len(pool) > 0 { // extension of an existing key (prefix-related)
			b := append([]byte{}, pool[r.Intn(len(pool))]...)
			for i := 0; i < 1+r.Intn(3); i++ {
				b = append(b, alpha())
			}
			return b
		}
	case 5:
		if len(pool) > 0 { // differs in the last byte
			b := append([]byte{}, pool[r.Intn(len(pool))]...)
			if len(b) > 0 {
				b[len(b)-1] = alpha()
				return b
			}
		}
	case 6:
		if len(pool) > 0 { // 0xff-terminated extension
			b := append([]byte{}, pool[r.Intn(len(pool))]...)
			return append(b, 0xff)
		}
	case 7:
		if len(pool) > 0 { // proper prefix
			b := pool[r.Intn(len(pool))]
			if len(b) > 0 {
				return append([]byte{}, b[:r.Intn(len(b))]...)
			}
		}
	case 8:
		// low end of the alphabet: '%' and bytes just above '$'
		n := 1 + r.Intn(4)
		b := make([]byte, n)
		for i := range b {
			b[i] = byte(0x25 + r.Intn(3))
		}
		return b
	}
	n := 1 + r.Intn(8)
	b := make([]byte, n)
	for i := range b {
		if r.Intn(3) == 0 {
			b[i] = alpha()
		} else {
			b[i] = "ab/-.0_~"[r.Intn(8)]
		}
	}
	return b
}

func genRev(r *rand.Rand) uint64 {
	switch r.Intn(8) {
	case 0:
		return 0
	case 1:
		return 1
	case 2:
		return 1 << 63
	case 3:
		return ^uint64(0)
	case 4:
		return uint64(r.Intn(300))
	case 5:
		return 0x2400000000000000 | uint64(r.Int63()) // '$' as first revision byte
	}
	return r.Uint64()
}

func cmpKR(k1 []byte, r1 uint64, k2 []byte, r2 uint64) int {
	if c := bytes.Compare(k1, k2); c != 0 {
		return c
	}
	switch {
	case r1 < r2:
		return -1
	case r1 > r2:
		return 1
	}
	return 0
}

func sgn(x int) int {
	switch {
	case x < 0:
		return -1
	case x > 0:
		return 1
	}
	return 0
}

func runC10(c *harness.Case) {
	r := c.Rng
	cd := coder.NewNormalCoder()
	type in struct {
		k []byte
		r uint64
	}
	var pool [][]byte
	var ins []in
	nPrefixPairs, nFF, nExtreme := 0, 0, 0
	for i := 0; i < 2000; i++ {
		k := genKey(r, pool)
		if len(pool) < 200 {
			pool = append(pool, k)
		} else {
			pool[r.Intn(len(pool))] = k
		}
		rev := genRev(r)
		ins = append(ins, in{k, rev})
		if len(k) > 0 && k[len(k)-1] == 0xff {
			nFF++
		}
		if rev == 0 || rev == ^uint64(0) || rev == 1<<63 {
			nExtreme++
		}
		// round trip
		enc := cd.EncodeObjectKey(k, rev)
		dk, dr, err := cd.Decode(enc)
		if err != nil || !bytes.Equal(dk, k) || dr != rev {
			c.Violatef("C10 round-trip", map[string]interface{}{"key": fmt.Sprintf("%q", k), "rev": rev}, "Decode(Encode(%q,%d)) = (%q,%d,%v)", k, rev, dk, dr, err)
			return
		}
		if rev == 0 && !bytes.Equal(cd.EncodeRevisionKey(k), enc) {
			c.Violatef("C10 index-key-differs", nil, "EncodeRevisionKey(%q) != EncodeObjectKey(%q,0)", k, k)
			return
		}
		c.Stat("inputs", 1)
	}
	// pairwise order
	for i := 0; i < 6000; i++ {
		a, b := ins[r.Intn(len(ins))], ins[r.Intn(len(ins))]
		if i%3 == 0 { // force related pairs: same key different revisions / neighbours
			b = in{a.k, genRev(r)}
		}
		if len(a.k) < len(b.k) && bytes.HasPrefix(b.k, a.k) || len(b.k) < len(a.k) && bytes.HasPrefix(a.k, b.k) {
			nPrefixPairs++
		}
		want := sgn(cmpKR(a.k, a.r, b.k, b.r))
		got := sgn(bytes.Compare(cd.EncodeObjectKey(a.k, a.r), cd.EncodeObjectKey(b.k, b.r)))
		if want != got {
			c.Violatef("C10 order-not-preserved", map[string]interface{}{"a": fmt.Sprintf("%q@%d", a.k, a.r), "b": fmt.Sprintf("%q@%d", b.k, b.r)},
				"encoded order of (%q,%d) vs (%q,%d) is %d, (key,revision) order is %d", a.k, a.r, b.k, b.r, got, want)
			return
		}
		c.Stat("pairs", 1)
	}
	// ParseRevision lengths
	for n := 0; n <= 12; n++ {
		b := make([]byte, n)
		r.Read(b)
		rev, tomb, err := coder.ParseRevision(b)
		switch n {
		case 8, 9:
			if err != nil || tomb != (n == 9) || rev != u64(b[:8]) {
				c.Violatef("C10 parse-revision", nil, "ParseRevision(%x) = (%d,%v,%v)", b, rev, tomb, err)
			}
		default:
			if err == nil {
				c.Violatef("C10 parse-revision", nil, "ParseRevision of %d bytes did not fail", n)
			}
		}
	}
	// ranges: load records into the real memkv engine and iterate through the computed bounds
	kv := memkv.NewKvStorage()
	ctx := context.Background()
	keyset := map[string]bool{}
	for i := 0; i < 60; i++ {
		k := pool[r.Intn(len(pool))]
		if keyset[string(k)] {
			continue
		}
		keyset[string(k)] = true
		b := kv.BeginBatchWrite()
		b.Put(cd.EncodeRevisionKey(k), []byte("idx"), 0)
		for j := 0; j < 1+r.Intn(3); j++ {
			rev := genRev(r)
			if rev == 0 {
				rev = 7
			}
			b.Put(cd.EncodeObjectKey(k, rev), []byte("v"), 0)
		}
		b.Commit(ctx)
	}
	var all []string
	for k := range keyset {
		all = append(all, k)
	}
	sort.Strings(all)
	iterRaw := func(s, e []byte) ([]string, error) {
		it, err := kv.Iter(ctx, cd.EncodeObjectKey(s, 0), cd.EncodeObjectKey(e, 0), 0, 0)
		if err != nil {
			return nil, err
		}
		defer it.Close()
		seen := map[string]bool{}
		var out []string
		lastRaw := ""
		first := true
		for {
			if err := it.Next(ctx); err != nil {
				if err == io.EOF {
					return out, nil
				}
				return nil, err
			}
			raw, rev, derr := cd.Decode(it.Key())
			if derr != nil {
				return nil, derr
			}
			if first || string(raw) != lastRaw {
				// versions of one key must be contiguous with the index record first
				if seen[string(raw)] {
					return nil, fmt.Errorf("records of key %q are not contiguous", raw)
				}
				if rev != 0 {
					return nil, fmt.Errorf("first record of key %q is not its index record (rev %d)", raw, rev)
				}
				seen[string(raw)] = true
				out = append(out, string(raw))
				lastRaw = string(raw)
				first = false
			}
		}
	}
	for i := 0; i < 60; i++ {
		s, e := genKey(r, pool), genKey(r, pool)
		prefixMode := i%2 == 0
		if prefixMode {
			e = backend.PrefixEnd(s)
		}
		if prefixMode && bytes.Equal(e, []byte{0}) {
			// empty or all-0xff prefix: PrefixEnd has no successor and returns its documented sentinel
			// ("default to WithFromKey policy"); the caller must not use it as a bound
			c.Stat("prefixes_without_successor", 1)
			continue
		}
		if bytes.Compare(s, e) >= 0 {
			if prefixMode {
				// all-0xff prefix: PrefixEnd has no successor; Backend.List must refuse rather than return a wrong set (checked below)
				c.Stat("prefixes_without_successor", 1)
			}
			continue
		}
		got, err := iterRaw(s, e)
		if err != nil {
			c.Violatef("C10 range-iteration", nil, "iterating [%q,%q): %v", s, e, err)
			return
		}
		var want []string
		for _, k := range all {
			if prefixMode {
				if bytes.HasPrefix([]byte(k), s) {
					want = append(want, k)
				}
			} else if k >= string(s) && k < string(e) {
				want = append(want, k)
			}
		}
		if !eqStr(got, want) {
			sig := "C10 range-bounds-enclose-wrong-set"
			if prefixMode {
				sig = "C10 prefix-bounds-enclose-wrong-set"
			}
			c.Violatef(sig, map[string]interface{}{"start": fmt.Sprintf("%q", s), "end": fmt.Sprintf("%q", e)}, "internal bounds of [%q,%q) enclose raw keys %q; exactly %q lie inside", s, e, got, want)
			return
		}
		c.Stat("ranges", 1)
	}
	// the same through the real Backend.List with PrefixEnd bounds, including an all-0xff prefix
	// (engine: memkv; in every third case a TiKV mock pre-split into regions, in every third a memkv reporting several
	// partitions - borders at records of the keys about to be stored - so that the bounds also have to survive the
	// clamping of engine partitions to the requested range)
	var cand []string
	for i := 0; i < 12; i++ {
		if k := genKey(r, pool); len(k) > 0 {
			cand = append(cand, harness.Prefix+"/"+string(k))
		}
	}
	// keys that merely extend another stored key (their records follow that key's records directly)
	for i := 0; i < 2 && i < len(cand); i++ {
		cand = append(cand, cand[i]+"-1", cand[i]+"/x")
	}
	var eng *harness.Engine
	var bkv storage.KvStorage
	switch c.Index % 3 {
	case 1, 2:
		var ok bool
		if bkv, eng, _, ok = partitionedStore(c, newRand(r.Int63()), []string{"", "tikv", "memkv"}[c.Index%3], append(cand, harness.Prefix+"/\xff\xff"), 1000, 14); !ok {
			return
		}
	default:
		eng, _ = harness.NewEngine("memkv")
		bkv = eng.KV
	}
	defer eng.Close()
	c.AddSet("list_engines", []string{"memkv", "tikv/split", "memkv/parts"}[c.Index%3])
	n := harness.NewNode(harness.NodeOpts{KV: bkv})
	defer n.Retire()
	nc := harness.NewNode(harness.NodeOpts{KV: bkv, Config: backend.Config{EnableEtcdCompatibility: true}})
	defer nc.Retire()
	var bkeys []string
	for _, full := range cand {
		resp, err := n.Create(full, []byte("v"))
		if err == nil && resp.Succeeded {
			bkeys = append(bkeys, full)
			n.WaitCommitted(resp.Header.GetRevision(), 0)
		}
	}
	ffKey := harness.Prefix + "/\xff\xff"
	if resp, err := n.Create(ffKey, []byte("v")); err == nil && resp.Succeeded {
		bkeys = append(bkeys, ffKey)
	}
	n.WaitCommitted(n.Dealt(), 30e9)
	sort.Strings(bkeys)
	for i := 0; i < 25; i++ {
		var p []byte
		switch i {
		case 0:
			p = []byte(harness.Prefix + "/")
		case 1:
			p = []byte(harness.Prefix + "/\xff")
		case 2:
			p = []byte("\xff\xff")
		default:
			k := bkeys[r.Intn(len(bkeys))]
			p = []byte(k[:len(harness.Prefix)+1+r.Intn(len(k)-len(harness.Prefix))])
		}
		end := backend.PrefixEnd(p)
		resp, err := n.B.List(harness.Ctx, &proto.RangeRequest{Key: p, End: end})
		var want []string
		for _, k := range bkeys {
			if bytes.HasPrefix([]byte(k), p) {
				want = append(want, k)
			}
		}
		if err != nil {
			c.Stat("list_prefix_refused", 1)
			continue // an error is acceptable, a wrong set is not
		}
		var got []string
		for _, kv := range resp.Kvs {
			got = append(got, string(kv.Key))
		}
		if !eqStr(got, want) {
			c.Violatef("C10 prefix-bounds-enclose-wrong-set via=Backend.List", map[string]interface{}{"prefix": fmt.Sprintf("%q", p)}, "List(%q, PrefixEnd=%q) returned %q; keys with that prefix are %q", p, end, got, want)
			return
		}
		c.Stat("list_prefix_checked", 1)
	}
	// raw ranges between stored keys (and their neighbours): exactly the keys in [a,b)
	for i := 0; i < 25 && len(bkeys) > 1; i++ {
		a, b := bkeys[r.Intn(len(bkeys))], bkeys[r.Intn(len(bkeys))]
		// (bounds stay inside the documented alphabet, bytes > '$': a stored key or a stored key extended by such a byte)
		switch r.Intn(4) {
		case 0:
			a += "%"
		case 1:
			b += "%"
		}
		if a >= b {
			a, b = b, a
		}
		if a == b {
			continue
		}
		resp, err := n.B.List(harness.Ctx, &proto.RangeRequest{Key: []byte(a), End: []byte(b)})
		if err != nil {
			continue
		}
		var want, got []string
		for _, k := range bkeys {
			if k >= a && k < b {
				want = append(want, k)
			}
		}
		for _, kv := range resp.Kvs {
			got = append(got, string(kv.Key))
		}
		if !eqStr(got, want) {
			c.Violatef("C10 range-bounds-enclose-wrong-set via=Backend.List", map[string]interface{}{"start": fmt.Sprintf("%q", a), "end": fmt.Sprintf("%q", b)}, "List(%q,%q) returned %q; the stored keys inside are %q", a, b, got, want)
			return
		}
		c.Stat("list_ranges_checked", 1)
		// Count computes its own bounds for the same raw range (a second node over the same store with etcd
		// compatibility on - Count answers 0 without it - reading at the first node's revision as a follower does)
		nc.B.SetCurrentRevision(n.Committed())
		if cr, cerr := nc.B.Count(harness.Ctx, &proto.CountRequest{Key: []byte(a), End: []byte(b)}); cerr == nil {
			if int(cr.Count) != len(want) {
				c.Violatef("C10 range-bounds-enclose-wrong-set via=Backend.Count", map[string]interface{}{"start": fmt.Sprintf("%q", a), "end": fmt.Sprintf("%q", b)}, "Count(%q,%q) = %d; the stored keys inside are %q", a, b, cr.Count, want)
				return
			}
			c.Stat("count_ranges_checked", 1)
		}
	}
	// the same reads at an older revision, after half of the keys got newer versions (a scan then meets versions it has
	// to pass over; whatever it does to pass over them must stay inside that one raw key - also when the next raw key
	// merely extends it): every key existed at R0, so the sets are the same as before
	if c.Index%2 == 1 && len(bkeys) > 1 {
		R0 := n.Committed()
		for _, k := range bkeys {
			if r.Intn(2) == 0 || strings.HasSuffix(k, "-1") || strings.HasSuffix(k, "/x") {
				continue
			}
			if g, gerr := n.Get(k, 0); gerr == nil && g.Kv != nil {
				n.Do(harness.SeqOp{Kind: "update", Key: k, Val: []byte("w"), Exp: g.Kv.Revision})
			}
		}
		n.WaitCommitted(n.Dealt(), 30e9)
		for i := 0; i < 20; i++ {
			k := bkeys[r.Intn(len(bkeys))]
			p := []byte(k[:len(harness.Prefix)+1+r.Intn(len(k)-len(harness.Prefix))])
			if i == 0 {
				p = []byte(harness.Prefix + "/")
			}
			resp, err := n.B.List(harness.Ctx, &proto.RangeRequest{Key: p, End: backend.PrefixEnd(p), Revision: R0})
			if err != nil {
				continue
			}
			var want, got []string
			for _, k := range bkeys {
				if bytes.HasPrefix([]byte(k), p) {
					want = append(want, k)
				}
			}
			for _, kv := range resp.Kvs {
				got = append(got, string(kv.Key))
			}
			if !eqStr(got, want) {
				c.Violatef("C10 prefix-bounds-enclose-wrong-set via=Backend.List at=older-revision", map[string]interface{}{"prefix": fmt.Sprintf("%q", p), "revision": R0}, "List(%q, PrefixEnd, revision %d) returned %q after some keys got newer versions; the keys with that prefix at that revision are %q", p, R0, got, want)
				return
			}
			c.Stat("list_prefix_checked_at_an_older_revision", 1)
		}
	}
	// the coder is called from every request goroutine at once: concurrent round trips of short and long keys (encoding
	// is a pure function; a result must not depend on who else is encoding)
	if c.Index%4 == 1 {
		if bad := concurrentRoundTrips(r.Int63(), 8, 3000); bad != "" {
			c.Violatef("C10 concurrent-round-trip-differs", map[string]interface{}{"first_mismatch": bad}, "with 8 goroutines encoding at the same time: %s", bad)
			return
		}
		c.Stat("concurrent_round_trips", 8*3000)
	}
	// the bounds a node computes from its configured key prefix for compaction: whatever the prefix looks like (empty -
	// the --key-prefix default -, with or without a trailing slash, with a doubled slash, relative), a compaction
	// must reach exactly the records under it
	if c.Index%4 == 0 {
		for _, pfx := range []string{"", "/", "/registry", "/registry/", "/x//y", "/a.b", "rel"} {
			eng2, _ := harness.NewEngine("memkv")
			n2 := harness.NewNode(harness.NodeOpts{KV: eng2.KV, EmptyPrefix: pfx == "", Config: backend.Config{Prefix: pfx}})
			base := pfx
			if !strings.HasSuffix(base, "/") {
				base += "/"
			}
			k1, k2 := base+"k1", base+"dir/k2"
			okAll := true
			var last uint64
			for i, v := range []string{"v1", "v2", "v3"} {
				var out harness.Outcome
				if i == 0 {
					out = n2.Do(harness.SeqOp{Kind: "create", Key: k1, Val: []byte(v)})
				} else {
					out = n2.Do(harness.SeqOp{Kind: "update", Key: k1, Val: []byte(v), Exp: last})
				}
				okAll = okAll && out.Err == "" && out.Succeeded
				last = out.Rev
			}
			o2 := n2.Do(harness.SeqOp{Kind: "create", Key: k2, Val: []byte("x")})
			o3 := n2.Do(harness.SeqOp{Kind: "delete", Key: k2, Exp: o2.Rev})
			okAll = okAll && o2.Succeeded && o3.Succeeded
			n2.WaitCommitted(o3.Rev, 30e9)
			if !okAll {
				n2.Retire()
				c.Inconclusive(fmt.Sprintf("set-up writes failed under prefix %q", pfx))
				return
			}
			_, cerr := n2.B.Compact(harness.Ctx, n2.Committed())
			dump, derr := harness.Dump(eng2.KV, []byte{0}, []byte{0xff, 0xff, 0xff, 0xff, 0xff})
			n2.Retire()
			if cerr != nil || derr != nil {
				c.Inconclusive(fmt.Sprintf("compaction under prefix %q: %v %v", pfx, cerr, derr))
				return
			}
			versions := map[string]int{}
			index := map[string]bool{}
			for _, rec := range dump {
				raw, rev, err := coderC.Decode(rec.Key)
				if err != nil {
					continue
				}
				if rev == 0 {
					index[string(raw)] = true
				} else {
					versions[string(raw)]++
				}
			}
			if versions[k1] != 1 || !index[k1] || versions[k2] != 0 || index[k2] {
				c.Violatef("C10 compaction-bounds-of-configured-prefix-enclose-wrong-set", map[string]interface{}{"prefix": pfx},
					"node configured with key prefix %q: after three versions of %q, a create+delete of %q and Compact(latest) the engine holds %d version(s) and index=%v of the first and %d version(s) and index=%v of the second; a compaction whose bounds enclose the prefix's records leaves exactly the newest version of the first and nothing of the second",
					pfx, k1, k2, versions[k1], index[k1], versions[k2], index[k2])
				return
			}
			c.Stat("configured_prefixes_compacted", 1)
		}
		// and with skipped prefixes configured: the ranges between the node's own ranges belong to somebody else and
		// must not be reached
		{
			eng2, _ := harness.NewEngine("memkv")
			skip := harness.Prefix + "/skipped"
			n2 := harness.NewNode(harness.NodeOpts{KV: eng2.KV, Config: backend.Config{SkippedPrefixes: []string{skip}}})
			own, foreign := harness.Prefix+"/own/k", skip+"/k"
			var lastOwn, lastForeign uint64
			okAll := true
			for i := 0; i < 3; i++ {
				for _, kk := range []string{own, foreign} {
					last := &lastOwn
					if kk == foreign {
						last = &lastForeign
					}
					var out harness.Outcome
					if i == 0 {
						out = n2.Do(harness.SeqOp{Kind: "create", Key: kk, Val: []byte("v")})
					} else {
						out = n2.Do(harness.SeqOp{Kind: "update", Key: kk, Val: []byte("v"), Exp: *last})
					}
					okAll = okAll && out.Err == "" && out.Succeeded
					*last = out.Rev
				}
			}
			n2.WaitCommitted(n2.Dealt(), 30e9)
			_, cerr := n2.B.Compact(harness.Ctx, n2.Committed())
			dump, derr := harness.Dump(eng2.KV, []byte{0}, []byte{0xff, 0xff, 0xff, 0xff, 0xff})
			n2.Retire()
			if okAll && cerr == nil && derr == nil {
				versions := map[string]int{}
				for _, rec := range dump {
					if raw, rev, err := coderC.Decode(rec.Key); err == nil && rev != 0 {
						versions[string(raw)]++
					}
				}
				if versions[own] != 1 || versions[foreign] != 3 {
					c.Violatef("C10 compaction-bounds-of-configured-prefix-enclose-wrong-set skipped-prefix", map[string]interface{}{"skipped": skip},
						"node with skipped prefix %q: after three versions each of %q and %q and Compact(latest) the engine holds %d / %d version records; the compaction must reach its own key (1 left) and leave the skipped one alone (3 left)", skip, own, foreign, versions[own], versions[foreign])
					return
				}
				c.Stat("skipped_prefix_configurations_compacted", 1)
			}
		}
	}
	c.Fingerprint(nPrefixPairs > 0 && nFF > 0 && nExtreme > 0, c.Seed, c.Index, len(all), nPrefixPairs)
	if c.Index < 2 {
		var s []string
		for i := 0; i < 12; i++ {
			s = append(s, fmt.Sprintf("%q@%d", ins[i].k, ins[i].r))
		}
		c.R.Sample = map[string]interface{}{"inputs": s, "stored_keys": len(all)}
	}
}

// concurrentRoundTrips: g goroutines x n encodes of keys of 0..12 bytes (alphabet bytes > '$') with random revisions;
// returns a description of the first decode(encode(k,r)) != (k,r).
func concurrentRoundTrips(seed int64, g, n int) string {
	var wg sync.WaitGroup
	bad := make(chan string, g)
	for i := 0; i < g; i++ {
		wg.Add(1)
		go func(i int) {
			defer wg.Done()
			rr := newRand(seed + int64(i))
			cd := coder.NewNormalCoder()
			for j := 0; j < n; j++ {
				k := make([]byte, rr.Intn(13))
				for x := range k {
					k[x] = byte(0x25 + rr.Intn(0xff-0x25+1))
				}
				rev := rr.Uint64()
				if rr.Intn(4) == 0 {
					rev = 0
				}
				enc := cd.EncodeObjectKey(k, rev)
				runtime.Gosched()
				raw, got, err := cd.Decode(enc)
				if err != nil || !bytes.Equal(raw, k) || got != rev {
					select {
					case bad <- fmt.Sprintf("Decode(EncodeObjectKey(%q,%d)) = (%q,%d,%v)", k, rev, raw, got, err):
					default:
					}
					return
				}
			}
		}(i)
	}
	wg.Wait()
	select {
	case b := <-bad:
		return b
	default:
		return ""
	}
}
