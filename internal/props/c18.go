package props

import (
	"context"
	"encoding/json"
	"fmt"
	"net"
	"net/http"
	"net/http/httptest"
	"strings"
	"sync"
	"sync/atomic"
	"time"

	proto "github.com/kubewharf/kubebrain-client/api/v2rpc"
	"go.etcd.io/etcd/api/v3/etcdserverpb"
	"go.etcd.io/etcd/api/v3/mvccpb"
	"google.golang.org/grpc/codes"
	"google.golang.org/grpc/metadata"
	"google.golang.org/grpc/status"
	metav1 "k8s.io/apimachinery/pkg/apis/meta/v1"
	"k8s.io/client-go/tools/leaderelection/resourcelock"

	"github.com/kubewharf/kubebrain/pkg/backend"
	"github.com/kubewharf/kubebrain/pkg/backend/election"
	"github.com/kubewharf/kubebrain/pkg/server"
	"github.com/kubewharf/kubebrain/pkg/server/brain"
	"github.com/kubewharf/kubebrain/pkg/server/etcd"
	"github.com/kubewharf/kubebrain/pkg/server/service/leader"
	"github.com/kubewharf/kubebrain/pkg/server/service/revision"

	"verif/internal/harness"
)

// C18 — only the leader writes and streams; followers read at its revision or fail.

func init() {
	Registry["C18"] = &Prop{
		Plan: func(tier string) Plan {
			return Plan{Level: "exploration", NCases: c18Matrix + pick(tier, 32, 3000), Batch: 2, CaseTimeout: 180,
				Rule: "cases 0-35 (role matrix): every request type of both APIs (etcd Txn create/update/delete, Range get/list/count/partitions, Watch from the next revision and from revision 0 (\"from now\"), range-stream watch, Lease; native Create/Update/Delete/Compact/Get/Range/Count/ListPartition/RangeStream/Watch) x {leader, follower} x {proxy on, off} x {leader reachable, unreachable, HTTP 400, HTTP 500, the recorded leader being a real node that is not leading (its real /status handler answers), a 200 answer cut off half-way through its body, a 200 answer whose body is not the revision document, no leader known at all (the lock is held by nobody / the address is blank)}, handlers built over a call-recording Backend, the REAL revision syncer pointed at an httptest leader, a stub election and a recording proxy. " +
					"oracle: on a follower the backend never sees Create/Update/Delete/Compact/Watch (request rejected Unavailable or handed to the proxy), every backend read is preceded by SetCurrentRevision(v) with v served by the leader during this very request, a failed sync gives an error and no backend read; on the leader writes reach the backend and no sync happens. " +
					"further cases (two nodes): a leader node and a follower node over one store with the real revision syncer over HTTP; writers on the leader, concurrent readers on the follower; in a third of them the verif hooks hold one reader between fetching and setting the revision while another sits between its own set and its backend read; in another third five readers holding different fetched revisions are released into the set at the same instant (150 rounds). oracle: the follower's response header >= the leader's committed revision sampled before the request began, and the data equals the reference snapshot at the header revision. " +
					"every 8th further case is a PRODUCTION PAIR: two nodes as cmd/option.Run starts them (pkg/endpoint with multiplexed client and peer ports, server.NewServer, real Campaign, real revision syncer, real etcd proxy when etcd compatibility is on; peer port plain, TLS-only with client certificates, or both on one port) over one store, requests sent to the follower's client port over gRPC: native writes and watches refused, an etcd write either fails and changes nothing or is executed by the leader exactly once, every read the follower answers contains a write that was readable on the leader before, an etcd watch is refused or shows the leader's events. " +
					"non-trivial = matrix case with all request types exercised, or two-node case with >=20 follower reads overlapping leader writes; distinct by (role, proxy, leader mode) / (placement, read count)",
				Assumptions: []string{"in the matrix the etcd proxy is a recording stub; the production-pair cases run the real one", "in the two-node cases the election is a stub; the status handler is the real one's logic re-served from the leader's backend"},
				MinConcl:    c18Matrix + pick(tier, 24, 2500)}
		},
		Name: func(c *harness.Case) string {
			if c.Index < c18Matrix {
				role := []string{"leader", "follower"}[c.Index%2]
				proxy := []string{"proxy-off", "proxy-on"}[(c.Index/2)%2]
				mode := c18Modes[(c.Index/4)%len(c18Modes)]
				return "matrix/" + role + "/" + proxy + "/" + mode
			}
			if c.Index%8 == 5 {
				return "production-pair/proxy-" + []string{"off", "on"}[(c.Index/8)%2] + "/peer-tls-" + c18PeerTLS[(c.Index/16)%3]
			}
			switch c.Index % 3 {
			case 0:
				return "two-nodes/placed"
			case 1:
				return "two-nodes/simultaneous-set"
			}
			return "two-nodes/stress"
		},
		Run: func(c *harness.Case) {
			if c.Index < c18Matrix {
				runC18Matrix(c)
			} else if c.Index%8 == 5 {
				runC18ProdPair(c, (c.Index/8)%2 == 1, c18PeerTLS[(c.Index/16)%3])
			} else {
				runC18TwoNodes(c, c.Index%3 == 0, c.Index%3 == 1)
			}
		},
	}
}

var c18Modes = []string{"reachable", "unreachable", "http400", "http500", "recorded-leader-is-not-leading", "body-cut-off", "garbage-body", "no-leader-known(lock-held-by-nobody)", "no-leader-known(blank-address)"}

const c18Matrix = 36

var c18PeerTLS = []string{"off", "only", "both"}

// peerSvc composes the real revision syncer with a stub election and a recording proxy.
type peerSvc struct {
	revision.RevisionSyncer
	leader.LeaderElection
	proxyOn  bool
	mu       sync.Mutex
	proxyTxn int
	proxyW   int
}

func (p *peerSvc) EtcdProxyEnabled() bool { return p.proxyOn }
func (p *peerSvc) Txn(ctx context.Context, txn *etcdserverpb.TxnRequest) (*etcdserverpb.TxnResponse, error) {
	p.mu.Lock()
	p.proxyTxn++
	p.mu.Unlock()
	return nil, harness.ErrProxied
}
func (p *peerSvc) Watch(ctx context.Context, key string, revision uint64) (<-chan []*mvccpb.Event, error) {
	p.mu.Lock()
	p.proxyW++
	p.mu.Unlock()
	return nil, harness.ErrProxied
}

// fake stream servers for the native API
type fakeStream struct {
	ctx context.Context
}

func (f *fakeStream) SetHeader(metadata.MD) error  { return nil }
func (f *fakeStream) SendHeader(metadata.MD) error { return nil }
func (f *fakeStream) SetTrailer(metadata.MD)       {}
func (f *fakeStream) Context() context.Context     { return f.ctx }
func (f *fakeStream) SendMsg(m interface{}) error  { return nil }
func (f *fakeStream) RecvMsg(m interface{}) error  { return nil }

type fakeRangeStream struct {
	fakeStream
	n int
}

func (f *fakeRangeStream) Send(*proto.StreamRangeResponse) error { f.n++; return nil }

type fakeBrainWatch struct {
	fakeStream
	n int
}

func (f *fakeBrainWatch) Send(*proto.WatchResponse) error { f.n++; return nil }

func runC18Matrix(c *harness.Case) {
	isLeader := c.Index%2 == 0
	proxyOn := (c.Index/2)%2 == 1
	mode := c18Modes[(c.Index/4)%len(c18Modes)]
	eng, _ := harness.NewEngine("memkv")
	defer eng.Close()
	n := harness.NewNode(harness.NodeOpts{KV: eng.KV, Config: backend.Config{EnableEtcdCompatibility: true}})
	defer n.Retire()
	for i := 0; i < 5; i++ {
		out := n.Do(harness.SeqOp{Kind: "create", Key: fmt.Sprintf("%s/k%d", harness.Prefix, i), Val: []byte("v")})
		n.WaitCommitted(out.Rev, 10*time.Second)
	}
	rec := &harness.RecBackend{Inner: n.B}
	// the "leader" the follower talks to
	var served sync.Map
	var next uint64 = n.Committed()
	var hits int64
	ts := httptest.NewServer(http.HandlerFunc(func(w http.ResponseWriter, r *http.Request) {
		atomic.AddInt64(&hits, 1)
		switch mode {
		case "http400":
			w.WriteHeader(400)
			w.Write([]byte("i'm not leader, so can't tell you revision"))
		case "http500":
			w.WriteHeader(500)
		case "garbage-body":
			// a 200 whose body is not the revision document (a proxy's error page, say)
			w.WriteHeader(200)
			w.Write([]byte("<html>upstream temporarily unavailable</html>"))
		case "body-cut-off":
			// the answer breaks off after the header and half of the body
			v := atomic.AddUint64(&next, 1)
			b, _ := json.Marshal(&revision.LeaderRevision{Revision: v})
			if hj, ok := w.(http.Hijacker); ok {
				conn, buf, herr := hj.Hijack()
				if herr == nil {
					fmt.Fprintf(buf, "HTTP/1.1 200 OK\r\nContent-Type: application/json\r\nContent-Length: %d\r\n\r\n", len(b))
					buf.Write(b[:len(b)/2])
					buf.Flush()
					conn.Close()
				}
			}
		default:
			v := atomic.AddUint64(&next, 1)
			served.Store(v, true)
			b, _ := json.Marshal(&revision.LeaderRevision{Revision: v})
			w.WriteHeader(200)
			w.Write(b)
		}
	}))
	addr := strings.TrimPrefix(ts.URL, "http://")
	if mode == "unreachable" {
		ts.Close()
	} else {
		defer ts.Close()
	}
	if mode == "recorded-leader-is-not-leading" {
		// the election record names a node that is not leading (it lost the lock to somebody else, or has not
		// started leading yet): its REAL /status handler (pkg/server) answers, not a stand-in
		eng2, _ := harness.NewEngine("memkv")
		defer eng2.Close()
		other := election.NewResourceLockManager(election.Config{Prefix: harness.Prefix, Identity: "somebody-else:2380", Timeout: time.Second}, eng2.KV).GetResourceLock()
		_ = other.Create(resourcelock.LeaderElectionRecord{HolderIdentity: "somebody-else:2380", LeaseDurationSeconds: 3600,
			AcquireTime: metav1.NewTime(time.Now()), RenewTime: metav1.NewTime(time.Now())})
		x := harness.NewNode(harness.NodeOpts{KV: eng2.KV, Config: backend.Config{Identity: "node-x:2380"}})
		defer x.Retire()
		xs := server.NewServer(x.B, x.Metrics, server.Config{}) // starts the real campaign, which cannot win for an hour
		h := xs.GetPeerHttpHandlers()["/status"]
		ts2 := httptest.NewServer(h)
		defer ts2.Close()
		addr = strings.TrimPrefix(ts2.URL, "http://")
	}
	switch mode {
	case "no-leader-known(lock-held-by-nobody)":
		// what the election service reports while the lock names no holder (a fresh cluster, a leader that released
		// the lock on shutdown): the lock describes itself as "empty,<tso>"
		addr = "empty"
	case "no-leader-known(blank-address)":
		addr = ""
	}
	stub := &leader.Stub{ElectionInfo: leader.ElectionInfo{LeaderAddress: addr, IsLeader: isLeader}}
	ps := &peerSvc{RevisionSyncer: revision.NewRevisionSyncer(rec, n.Metrics, stub, nil), LeaderElection: stub, proxyOn: proxyOn}
	es := etcd.New(rec, n.Metrics, ps)
	bs := brain.New(rec, n.Metrics, ps)
	rec.Take()
	key := harness.Prefix + "/k1"
	full := harness.Prefix + "/"
	fullEnd := string(backend.PrefixEnd([]byte(full)))
	ctx := context.Background()
	var log []string
	wit := func() interface{} { return map[string]interface{}{"case": c.R.Name, "requests": log} }

	type reqKind int
	const (
		write reqKind = iota
		read
		stream // watch from own history
		none   // touches no backend data
	)
	// judge one request
	judge := func(name string, kind reqKind, viaProxy bool, err error, respOK bool) {
		calls := rec.Take()
		ps.mu.Lock()
		ptxn, pw := ps.proxyTxn, ps.proxyW
		ps.proxyTxn, ps.proxyW = 0, 0
		ps.mu.Unlock()
		log = append(log, fmt.Sprintf("%s -> err=%v backend calls=%v proxied(txn=%d,watch=%d)", name, err, calls, ptxn, pw))
		c.Stat("requests", 1)
		c.AddSet("request_types", name)
		var writes, reads []string
		lastSet := uint64(0)
		hasSet := false
		for _, cl := range calls {
			switch {
			case cl == "Create" || cl == "Update" || cl == "Delete" || cl == "Compact" || cl == "Watch":
				writes = append(writes, cl)
			case strings.HasPrefix(cl, "SetCurrentRevision("):
				fmt.Sscanf(cl, "SetCurrentRevision(%d)", &lastSet)
				hasSet = true
			default:
				reads = append(reads, cl)
				if !isLeader {
					if !hasSet {
						c.Violatef("C18 follower-read-without-adopting-leader-revision request="+name, wit(), "%s on a follower: backend %s was called without a preceding SetCurrentRevision (leader mode %s)", name, cl, mode)
					} else if _, ok := served.Load(lastSet); !ok {
						c.Violatef("C18 follower-read-at-revision-not-served-by-leader request="+name, wit(), "%s on a follower: backend %s ran after SetCurrentRevision(%d) which the leader never served", name, cl, lastSet)
					}
				}
			}
		}
		if isLeader {
			if hasSet {
				c.Violatef("C18 leader-synced-revision request="+name, wit(), "%s on the leader set the read revision from a peer", name)
			}
			if kind == write && len(writes) == 0 && err == nil {
				c.Violatef("C18 leader-write-not-applied request="+name, wit(), "%s on the leader did not reach the backend", name)
			}
			return
		}
		// follower
		if len(writes) > 0 {
			sig := "C18 follower-applied-write request=" + name
			if kind == stream {
				sig = "C18 follower-served-watch-from-own-history request=" + name
			}
			c.Violatef(sig, wit(), "%s on a follower reached the backend: %v", name, writes)
		}
		switch kind {
		case write, stream:
			proxied := ptxn+pw > 0
			if viaProxy && proxyOn {
				if !proxied {
					c.Violatef("C18 follower-did-not-forward request="+name, wit(), "%s on a follower with the proxy enabled was neither forwarded nor rejected properly (err=%v)", name, err)
				}
			} else {
				if status.Code(err) != codes.Unavailable {
					c.Violatef("C18 follower-write-not-rejected-unavailable request="+name, wit(), "%s on a follower answered err=%v (code %s); Unavailable expected", name, err, status.Code(err))
				}
			}
		case read:
			if mode != "reachable" {
				if len(reads) > 0 {
					c.Violatef("C18 follower-read-served-without-leader request="+name, wit(), "%s on a follower served a backend read (%v) although the leader is %s", name, reads, mode)
				}
				if err == nil && respOK {
					c.Violatef("C18 follower-read-did-not-fail-without-leader request="+name, wit(), "%s on a follower returned no error although the leader is %s", name, mode)
				}
			} else if err != nil {
				c.Violatef("C18 follower-read-failed-with-leader-reachable request="+name, wit(), "%s on a follower failed: %v", name, err)
			}
		}
	}

	// ---- etcd API
	_, err := es.Txn(ctx, etcdCreate(harness.Prefix+"/new1", []byte("x")))
	judge("etcd.Txn(create)", write, true, err, true)
	_, err = es.Txn(ctx, etcdUpdate(key, []byte("x"), 1))
	judge("etcd.Txn(update)", write, true, err, true)
	_, err = es.Txn(ctx, etcdGuardedDelete(key, 1))
	judge("etcd.Txn(guarded delete)", write, true, err, true)
	_, err = es.Txn(ctx, etcdUnguardedDelete(harness.Prefix+"/k4"))
	judge("etcd.Txn(unguarded delete)", write, true, err, true)
	_, err = es.Range(ctx, &etcdserverpb.RangeRequest{Key: []byte(key)})
	judge("etcd.Range(get)", read, false, err, true)
	_, err = es.Range(ctx, &etcdserverpb.RangeRequest{Key: []byte(full), RangeEnd: []byte(fullEnd)})
	judge("etcd.Range(list)", read, false, err, true)
	_, err = es.Range(ctx, &etcdserverpb.RangeRequest{Key: []byte(full), RangeEnd: []byte(fullEnd), CountOnly: true})
	judge("etcd.Range(count)", read, false, err, true)
	_, err = es.Range(ctx, &etcdserverpb.RangeRequest{Key: []byte(full), RangeEnd: []byte(fullEnd), Revision: etcd.GetPartitionMagic})
	judge("etcd.Range(partitions)", read, false, err, true)
	// the same reads flagged serializable (etcd's "member-local read"): the flag is request content, not a licence to
	// answer without the leader's revision
	_, err = es.Range(ctx, &etcdserverpb.RangeRequest{Key: []byte(key), Serializable: true})
	judge("etcd.Range(get, serializable)", read, false, err, true)
	_, err = es.Range(ctx, &etcdserverpb.RangeRequest{Key: []byte(full), RangeEnd: []byte(fullEnd), Serializable: true})
	judge("etcd.Range(list, serializable)", read, false, err, true)
	_, err = es.Range(ctx, &etcdserverpb.RangeRequest{Key: []byte(full), RangeEnd: []byte(fullEnd), CountOnly: true, Serializable: true})
	judge("etcd.Range(count, serializable)", read, false, err, true)
	_, err = es.LeaseGrant(ctx, &etcdserverpb.LeaseGrantRequest{TTL: 10})
	judge("etcd.LeaseGrant", none, false, err, true)
	// watch (own history) and range stream through the etcd Watch stream
	for _, variant := range []string{"next", "from-now", "range-stream"} {
		neg := variant == "range-stream"
		wctx, cancel := context.WithCancel(ctx)
		fw := newFakeWatchServer(wctx)
		done := make(chan error, 1)
		go func() { done <- es.Watch(fw) }()
		cr := &etcdserverpb.WatchCreateRequest{Key: []byte(full), RangeEnd: []byte(fullEnd), StartRevision: int64(n.Committed() + 1)}
		name, kind := "etcd.Watch", stream
		if variant == "from-now" {
			// start revision 0 = "from now on", what a client sends when it does not care about history
			cr.StartRevision = 0
			name = "etcd.Watch(from now)"
		}
		if neg {
			cr = &etcdserverpb.WatchCreateRequest{Key: coderC.EncodeObjectKey([]byte(full), 0), RangeEnd: coderC.EncodeObjectKey([]byte(fullEnd), 0), StartRevision: -int64(n.Committed())}
			name, kind = "etcd.Watch(range stream)", read
		}
		fw.in <- &etcdserverpb.WatchRequest{RequestUnion: &etcdserverpb.WatchRequest_CreateRequest{CreateRequest: cr}}
		var werr error
		select {
		case werr = <-done:
		case <-time.After(300 * time.Millisecond):
		}
		// a cancel message with compact revision or a stream error counts as "failed"
		failed := werr != nil
		for _, m := range fw.snapshot() {
			if m.Canceled {
				failed = true
			}
			for _, ev := range m.Events {
				if ev.Kv != nil && string(ev.Kv.Key) == "eof" && len(ev.Kv.Value) > 0 {
					failed = true
				}
			}
		}
		cancel()
		if werr == nil {
			select {
			case <-done:
			case <-time.After(5 * time.Second):
			}
		}
		e2 := werr
		if failed && e2 == nil {
			e2 = status.Error(codes.Unavailable, "stream cancelled by server")
			if kind == stream && !isLeader && proxyOn {
				e2 = harness.ErrProxied
			}
		}
		judge(name, kind, true, e2, !failed)
	}
	// ---- native API
	_, err = bs.Create(ctx, &proto.CreateRequest{Key: []byte(harness.Prefix + "/new2"), Value: []byte("x")})
	judge("brain.Create", write, false, err, true)
	_, err = bs.Update(ctx, &proto.UpdateRequest{Kv: &proto.KeyValue{Key: []byte(key), Value: []byte("y"), Revision: 1}})
	judge("brain.Update", write, false, err, true)
	_, err = bs.Delete(ctx, &proto.DeleteRequest{Key: []byte(key), Revision: 1})
	judge("brain.Delete", write, false, err, true)
	_, err = bs.Compact(ctx, &proto.CompactRequest{Revision: n.Start + 1})
	judge("brain.Compact", write, false, err, true)
	_, err = bs.Get(ctx, &proto.GetRequest{Key: []byte(key)})
	judge("brain.Get", read, false, err, true)
	_, err = bs.Range(ctx, &proto.RangeRequest{Key: []byte(full), End: []byte(fullEnd)})
	judge("brain.Range", read, false, err, true)
	_, err = bs.Count(ctx, &proto.CountRequest{Key: []byte(full), End: []byte(fullEnd)})
	judge("brain.Count", read, false, err, true)
	_, err = bs.ListPartition(ctx, &proto.ListPartitionRequest{Key: []byte(full), End: []byte(fullEnd)})
	judge("brain.ListPartition", read, false, err, true)
	frs := &fakeRangeStream{fakeStream: fakeStream{ctx: ctx}}
	err = bs.RangeStream(&proto.RangeRequest{Key: coderC.EncodeObjectKey([]byte(full), 0), End: coderC.EncodeObjectKey([]byte(fullEnd), 0)}, frs)
	judge("brain.RangeStream", read, false, err, true)
	for _, fromNow := range []bool{false, true} {
		wctx, wcancel := context.WithCancel(ctx)
		fbw := &fakeBrainWatch{fakeStream: fakeStream{ctx: wctx}}
		wd := make(chan error, 1)
		req, name := &proto.WatchRequest{Key: []byte(full), Revision: n.Committed() + 1}, "brain.Watch"
		if fromNow {
			req.Revision, name = 0, "brain.Watch(from now)"
		}
		go func() { wd <- bs.Watch(req, fbw) }()
		select {
		case err = <-wd:
		case <-time.After(300 * time.Millisecond):
			err = nil
		}
		wcancel()
		judge(name, stream, false, err, true)
	}
	c.Stat("leader_status_requests", atomic.LoadInt64(&hits))
	c.Fingerprint(true, c.R.Name)
	c.R.Sample = map[string]interface{}{"case": c.R.Name, "requests": log}
}

// ---------------------------------------------------------------- two nodes

var c18Hook sync.Once
var c18Handler atomic.Value // func(name string, arg uint64)

func runC18TwoNodes(c *harness.Case, placed bool, simultaneous bool) {
	c18Hook.Do(func() {
		revision.VerifSetCallback(func(name string, arg uint64) {
			if f, ok := c18Handler.Load().(func(string, uint64)); ok && f != nil {
				f(name, arg)
			}
		})
	})
	c18Handler.Store(func(string, uint64) {})
	defer c18Handler.Store(func(string, uint64) {})
	r := c.Rng
	eng, _ := harness.NewEngine("memkv")
	defer eng.Close()
	L := harness.NewNode(harness.NodeOpts{KV: eng.KV, Config: backend.Config{EnableEtcdCompatibility: true}})
	defer L.Retire()
	F := harness.NewNode(harness.NodeOpts{KV: eng.KV, StartRev: 1, Config: backend.Config{EnableEtcdCompatibility: true}})
	defer F.Retire()
	// the leader's status endpoint: what server.revisionHandler does
	ln, err := net.Listen("tcp", "127.0.0.1:0")
	if err != nil {
		c.Inconclusive("listen: " + err.Error())
		return
	}
	mux := http.NewServeMux()
	mux.HandleFunc("/status", func(w http.ResponseWriter, req *http.Request) {
		b, _ := json.Marshal(&revision.LeaderRevision{Revision: L.B.GetCurrentRevision()})
		w.WriteHeader(200)
		w.Write(b)
	})
	hs := &http.Server{Handler: mux}
	go hs.Serve(ln)
	defer hs.Close()
	stubF := &leader.Stub{ElectionInfo: leader.ElectionInfo{LeaderAddress: ln.Addr().String(), IsLeader: false}}
	psF := &peerSvc{RevisionSyncer: revision.NewRevisionSyncer(F.B, F.Metrics, stubF, nil), LeaderElection: stubF}
	fs := brain.New(F.B, F.Metrics, psF)
	fes := etcd.New(F.B, F.Metrics, psF)
	m := harness.NewModel()
	var mmu sync.Mutex
	full := harness.Prefix + "/"
	fullEnd := string(backend.PrefixEnd([]byte(full)))
	keys := []string{"/a", "/b", "/c", "/d"}
	var stop int32
	var wg sync.WaitGroup
	wg.Add(1)
	wseed := r.Int63()
	var writes int64
	go func() {
		defer wg.Done()
		rr := newRand(wseed)
		for i := 0; atomic.LoadInt32(&stop) == 0; i++ {
			k := harness.Prefix + keys[rr.Intn(len(keys))]
			mmu.Lock()
			live := m.Live(k)
			mmu.Unlock()
			var op harness.SeqOp
			switch {
			case live == nil:
				op = harness.SeqOp{Kind: "create", Key: k, Val: []byte(fmt.Sprintf("w%d", i))}
			case rr.Intn(5) == 0:
				op = harness.SeqOp{Kind: "delete", Key: k, Exp: live.Rev}
			default:
				op = harness.SeqOp{Kind: "update", Key: k, Val: []byte(fmt.Sprintf("w%d", i)), Exp: live.Rev}
			}
			out := L.Do(op)
			if out.Err == "" && out.Succeeded {
				mmu.Lock()
				if op.Kind == "delete" {
					m.Del(k, out.Rev)
				} else {
					m.Put(k, out.Rev, op.Val)
				}
				mmu.Unlock()
				L.WaitCommitted(out.Rev, 10*time.Second)
				atomic.AddInt64(&writes, 1)
			}
			time.Sleep(time.Duration(rr.Intn(300)) * time.Microsecond)
		}
	}()
	type fread struct {
		before uint64 // leader's committed revision sampled before the request began
		header uint64
		kvs    []*proto.KeyValue
		who    string
		err    error
	}
	var reads []fread
	var rmu sync.Mutex
	doRead := func(who string) {
		before := L.Committed()
		var fr fread
		fr.before, fr.who = before, who
		if strings.HasPrefix(who, "etcd") {
			resp, err := fes.Range(context.Background(), &etcdserverpb.RangeRequest{Key: []byte(full), RangeEnd: []byte(fullEnd), Serializable: strings.HasSuffix(who, "s")})
			fr.err = err
			if err == nil {
				fr.header = uint64(resp.Header.GetRevision())
				for _, kv := range resp.Kvs {
					fr.kvs = append(fr.kvs, &proto.KeyValue{Key: kv.Key, Value: kv.Value, Revision: uint64(kv.ModRevision)})
				}
			}
		} else {
			resp, err := fs.Range(context.Background(), &proto.RangeRequest{Key: []byte(full), End: []byte(fullEnd)})
			fr.err = err
			if err == nil {
				fr.header, fr.kvs = resp.Header.GetRevision(), resp.Kvs
			}
		}
		rmu.Lock()
		reads = append(reads, fr)
		rmu.Unlock()
	}
	placedOK := int64(0)
	if placed {
		// reader A is held between fetching the leader's revision and setting it; reader B then runs a whole
		// sync and is held between its set and its backend read; A is released (sets its older revision), then B.
		for round := 0; round < 6; round++ {
			var aHeld, bHeld int32
			aGo, bGo := make(chan struct{}), make(chan struct{})
			aAt, bAt := make(chan struct{}, 1), make(chan struct{}, 1)
			var stage int32 // 0: next beforeSet is A's; 1: next afterSet is B's
			c18Handler.Store(func(name string, arg uint64) {
				switch {
				case name == "sync.beforeSet" && atomic.CompareAndSwapInt32(&stage, 0, 1) && atomic.CompareAndSwapInt32(&aHeld, 0, 1):
					aAt <- struct{}{}
					<-aGo
				case name == "sync.afterSet" && atomic.LoadInt32(&stage) == 2 && atomic.CompareAndSwapInt32(&bHeld, 0, 1):
					bAt <- struct{}{}
					<-bGo
				}
			})
			var rwg sync.WaitGroup
			rwg.Add(1)
			go func() { defer rwg.Done(); doRead("native-A(held before set)") }()
			select {
			case <-aAt:
			case <-time.After(10 * time.Second):
				close(aGo)
				close(bGo)
				rwg.Wait()
				continue
			}
			// let the leader advance
			w0 := atomic.LoadInt64(&writes)
			for t := 0; t < 2000 && atomic.LoadInt64(&writes) < w0+3; t++ {
				time.Sleep(200 * time.Microsecond)
			}
			atomic.StoreInt32(&stage, 2)
			rwg.Add(1)
			go func() { defer rwg.Done(); doRead("native-B(held after set)") }()
			select {
			case <-bAt:
				atomic.AddInt64(&placedOK, 1)
			case <-time.After(10 * time.Second):
			}
			close(aGo) // A now sets the older revision
			time.Sleep(2 * time.Millisecond)
			close(bGo) // B reads
			rwg.Wait()
			c18Handler.Store(func(string, uint64) {})
		}
	} else if simultaneous {
		// five readers that fetched DIFFERENT leader revisions are all held right before setting them and released
		// together, so that the sets run at the same instant; whichever order they take effect in, every reader must
		// then read at a revision not older than the leader's revision when its own request began
		const staged = 5
		for round := 0; round < 150; round++ {
			gate := make(chan struct{})
			at := make(chan struct{}, staged)
			var held, spin int32
			c18Handler.Store(func(name string, arg uint64) {
				if name == "sync.beforeSet" && atomic.AddInt32(&held, 1) <= staged {
					at <- struct{}{}
					<-gate
					// a short spin barrier brings the released goroutines within nanoseconds of each other
					atomic.AddInt32(&spin, 1)
					for i := 0; i < 2000000 && atomic.LoadInt32(&spin) < staged; i++ {
					}
				}
			})
			var rwg sync.WaitGroup
			ok := 0
			for k := 0; k < staged; k++ {
				rwg.Add(1)
				who := fmt.Sprintf("native-%c(held before set)", 'A'+k)
				if k%2 == 1 {
					who = fmt.Sprintf("etcd-%c(held before set)", 'A'+k)
				}
				go func() { defer rwg.Done(); doRead(who) }()
				select {
				case <-at:
					ok++
				case <-time.After(10 * time.Second):
				}
				// let the leader advance so that the next reader fetches a newer revision
				w0 := atomic.LoadInt64(&writes)
				for t := 0; t < 2000 && atomic.LoadInt64(&writes) < w0+1; t++ {
					time.Sleep(100 * time.Microsecond)
				}
			}
			if ok == staged {
				atomic.AddInt64(&placedOK, 1)
			}
			close(gate)
			rwg.Wait()
			c18Handler.Store(func(string, uint64) {})
		}
	} else {
		// readers are released together round by round (just scheduling), so that several of them adopt different
		// leader revisions at the same instant
		const readers, rounds = 8, 60
		var rwg sync.WaitGroup
		gates := make([]chan struct{}, rounds)
		arrived := make([]int32, rounds)
		for i := range gates {
			gates[i] = make(chan struct{})
		}
		for i := 0; i < readers; i++ {
			rwg.Add(1)
			go func(i int) {
				defer rwg.Done()
				for j := 0; j < rounds; j++ {
					if atomic.AddInt32(&arrived[j], 1) == readers {
						close(gates[j])
					}
					select {
					case <-gates[j]:
					case <-time.After(2 * time.Second):
					}
					if i%2 == 0 {
						doRead("native")
					} else if (i/2+j)%2 == 0 {
						doRead("etcd")
					} else {
						doRead("etcd-serializable-reads") // name ends in "s": the request carries Serializable
					}
				}
			}(i)
		}
		rwg.Wait()
	}
	atomic.StoreInt32(&stop, 1)
	wg.Wait()
	// judge
	overl := 0
	for _, fr := range reads {
		c.Stat("follower_reads", 1)
		if fr.err != nil {
			c.Violatef("C18 follower-read-failed-with-leader-reachable", nil, "%s read on the follower failed: %v", fr.who, fr.err)
			continue
		}
		if fr.header < fr.before {
			sig := "C18 follower-read-older-than-leader-revision-at-request-start"
			if placed {
				sig += " placement=reader-delayed-between-fetch-and-set"
			}
			if simultaneous {
				sig += " placement=two-readers-set-different-revisions-simultaneously"
			}
			c.Violatef(sig, map[string]interface{}{"reader": fr.who, "leader_committed_before_request": fr.before, "response_header": fr.header},
				"%s: the follower answered at revision %d although the leader had already committed revision %d before the request began (a concurrent reader moved the follower's read revision backwards)", fr.who, fr.header, fr.before)
			continue
		}
		mmu.Lock()
		want := m.Snapshot(full, fullEnd, fr.header)
		mmu.Unlock()
		if !sameKVs(want, fr.kvs) {
			c.Violatef("C18 follower-read-differs-from-leader-snapshot", nil, "%s: follower list at header %d = %s; leader's acknowledged writes give %s", fr.who, fr.header, kvStr(fr.kvs), mkvStr(want))
		}
		if fr.header > L.Start {
			overl++
		}
	}
	c.Stat("leader_writes", atomic.LoadInt64(&writes))
	c.Stat("placements_achieved", placedOK)
	nt := overl >= 20 || ((placed || simultaneous) && placedOK > 0)
	c.Fingerprint(nt, placed, simultaneous, len(reads), placedOK, c.Index)
	if c.Index < 20 {
		c.R.Sample = map[string]interface{}{"placed": placed, "follower_reads": len(reads), "leader_writes": atomic.LoadInt64(&writes), "placements_achieved": placedOK}
	}
}
