package props

import (
	"bytes"
	"errors"
	"fmt"
	"math/rand"
	"sort"
	"strings"
	"sync"
	"sync/atomic"
	"time"

	proto "github.com/kubewharf/kubebrain-client/api/v2rpc"

	"github.com/kubewharf/kubebrain/pkg/backend"
	"github.com/kubewharf/kubebrain/pkg/storage"

	"verif/internal/harness"
)

// C03 — a read at a revision returns exactly the MVCC snapshot at that revision.

var c03Engines = []string{"memkv", "badger", "tikv", "memkv+m", "tikv/split", "badger+m", "memkv/parts", "tikv/split"}

func init() {
	Registry["C03"] = &Prop{
		Plan: func(tier string) Plan {
			return Plan{Level: "exploration", NCases: pick(tier, 96, 3000), Batch: 6, CaseTimeout: 120,
				Rule: "one case = one PRNG sequential history (30-300 create/update/delete incl. failing ones) over prefix-related key names and hostile values on one engine (memkv, Badger, TiKV mock, metrics-wrapped, and engines reporting several partitions); " +
					"every Get/List/limited List/Count at every checkpoint revision is compared with the reference MVCC snapshot, again after more writes and after a compaction below the checkpoint; every 6th case ends with a List and a streamed range during which one iterator answers a single transient error at a PRNG-drawn step (the scanner retries): a successful answer must still be the snapshot. " +
					"non-trivial = history with >=1 deletion visible at some checkpoint, >=1 multi-version key and >=1 limited list cut short; distinct by (engine, outcome vector, key set)",
				Assumptions: []string{"reads are issued only at revisions the node reported (response headers) and not below the compaction floor",
					"TiKV is the in-process mock cluster"},
				MinConcl: pick(tier, 60, 2000)}
		},
		Name: func(c *harness.Case) string { return "seq-" + c03Engines[c.Index%len(c03Engines)] },
		Run:  runC03,
	}
}

var c03Names = []string{"a", "a/b", "a-b", "a.b", "ab", "a0", "a\xff", "a\xff\xff", "b", "a/b/c", "a/", "a//", "%", "z", "a/b\xff", "~", "\xff", "\xff\xff"}

func hostileValue(r *rand.Rand, allowMarker bool) []byte {
	switch r.Intn(14) {
	case 0:
		if allowMarker {
			return []byte("tombstone")
		}
		return []byte("tombstonE")
	case 1:
		return []byte("placeholder")
	case 2:
		b := make([]byte, 8)
		r.Read(b)
		return b
	case 3:
		b := make([]byte, 9)
		r.Read(b)
		b[8] = 0
		return b
	case 4:
		return []byte{0}
	case 5:
		b := make([]byte, 64*1024)
		r.Read(b)
		return b
	case 6:
		return []byte("tombstone\x00")
	case 7:
		return []byte("tombston")
	default:
		b := make([]byte, 1+r.Intn(40))
		r.Read(b)
		return b
	}
}

type seqCtx struct {
	c                         *harness.Case
	n                         *harness.Node
	m                         *harness.Model
	keys                      []string
	marker                    bool // the history contains the value "tombstone"
	hist                      []string
	checks                    []uint64 // checkpoint revisions
	nDel, nMulti, nFail, nCut int
	outcomes                  []byte
}

// genOp draws the next write request: a mix of correct, stale, zero and future expectations.
func (s *seqCtx) genOp(r *rand.Rand, allowMarker bool) harness.SeqOp {
	key := s.keys[r.Intn(len(s.keys))]
	live := s.m.Live(key)
	latest := s.m.Latest(key)
	switch x := r.Intn(100); {
	case x < 25:
		return harness.SeqOp{Kind: "create", Key: key, Val: hostileValue(r, allowMarker)}
	case x < 65:
		op := harness.SeqOp{Kind: "update", Key: key, Val: hostileValue(r, allowMarker)}
		switch y := r.Intn(10); {
		case y < 6 && live != nil:
			op.Exp = live.Rev
		case y < 8 && latest != nil:
			// stale: some older revision of the key
			vs := s.m.Keys[key]
			op.Exp = vs[r.Intn(len(vs))].Rev
		case y < 9:
			op.Exp = 0
		default:
			// a revision that was issued but never written to this key (never in the future: C04 covers those)
			op.Exp = s.n.Start + 1
			if d := s.n.Dealt(); d > s.n.Start+1 {
				op.Exp = s.n.Start + 1 + uint64(r.Int63n(int64(d-s.n.Start)))
			}
		}
		return op
	default:
		op := harness.SeqOp{Kind: "delete", Key: key}
		switch y := r.Intn(10); {
		case y < 4 && live != nil:
			op.Exp = live.Rev
		case y < 7:
			op.Exp = 0
		case latest != nil:
			vs := s.m.Keys[key]
			op.Exp = vs[r.Intn(len(vs))].Rev
		}
		return op
	}
}

func (s *seqCtx) write(op harness.SeqOp, prop string) bool {
	wasMarker := false
	if lv := s.m.Live(op.Key); lv != nil && bytes.Equal(lv.Val, []byte("tombstone")) {
		wasMarker = true
	}
	out, mis := s.n.ApplyChecked(s.m, op)
	s.hist = append(s.hist, op.String()+" -> "+out.String())
	if mis == "watchdog" {
		s.c.Inconclusive("watchdog waiting for the read revision to pass an acknowledged write")
		return false
	}
	if mis != "" {
		if wasMarker {
			s.c.Violate(prop+" value==deletion-marker write-on-key-treated-absent", mis, s.witness())
		} else {
			s.c.Violate(prop+" write-outcome-differs-from-reference kind="+op.Kind, mis, s.witness())
		}
	}
	if out.Err == "" && !out.Succeeded {
		s.nFail++
		s.outcomes = append(s.outcomes, 'f')
	} else if out.Err != "" {
		s.outcomes = append(s.outcomes, 'e')
	} else {
		s.outcomes = append(s.outcomes, op.Kind[0])
		if op.Kind == "delete" {
			s.nDel++
		}
		if len(s.m.Keys[op.Key]) == 2 {
			s.nMulti++
		}
	}
	// checkpoint: a revision the node reports as readable
	g, err := s.n.Get(op.Key, 0)
	if err == nil {
		s.checks = append(s.checks, g.Header.GetRevision())
	}
	return true
}

func (s *seqCtx) witness() interface{} {
	h := s.hist
	if len(h) > 400 {
		h = h[len(h)-400:]
	}
	return map[string]interface{}{"engine": s.c.R.Name, "history": h}
}

func kvStr(kvs []*proto.KeyValue) string {
	s := "["
	for i, kv := range kvs {
		if i > 0 {
			s += " "
		}
		v := kv.Value
		if len(v) > 12 {
			v = v[:12]
		}
		s += fmt.Sprintf("%q=%q@%d", kv.Key, v, kv.Revision)
	}
	return s + "]"
}

func mkvStr(kvs []harness.MKV) string {
	s := "["
	for i, kv := range kvs {
		if i > 0 {
			s += " "
		}
		v := kv.Val
		if len(v) > 12 {
			v = v[:12]
		}
		s += fmt.Sprintf("%q=%q@%d", kv.Key, v, kv.Rev)
	}
	return s + "]"
}

func sameKVs(want []harness.MKV, got []*proto.KeyValue) bool {
	if len(want) != len(got) {
		return false
	}
	for i := range want {
		if want[i].Key != string(got[i].Key) || !bytes.Equal(want[i].Val, got[i].Value) || want[i].Rev != got[i].Revision {
			return false
		}
	}
	return true
}

func dropMarker(kvs []harness.MKV) []harness.MKV {
	var out []harness.MKV
	for _, kv := range kvs {
		if !bytes.Equal(kv.Val, []byte("tombstone")) {
			out = append(out, kv)
		}
	}
	return out
}

// readPass compares every kind of read at revision R with the model.
func (s *seqCtx) readPass(prop string, R uint64, pass string, r *rand.Rand) {
	c := s.c
	full := harness.Prefix + "/"
	// point reads
	for _, k := range s.keys {
		want := s.m.At(k, R)
		for rep := 0; rep < 2; rep++ {
			g, err := s.n.Get(k, R)
			c.Stat("reads", 1)
			if err != nil {
				c.Violatef(prop+" get-error", s.witness(), "%s Get(%q,rev=%d) error %v", pass, k, R, err)
				break
			}
			if g.Header.GetRevision() < g.Kv.GetRevision() {
				c.Violatef(prop+" get-header-below-data", s.witness(), "%s Get(%q,rev=%d) header %d < kv revision %d", pass, k, R, g.Header.GetRevision(), g.Kv.GetRevision())
			}
			ok := (want == nil && g.Kv == nil) || (want != nil && g.Kv != nil && bytes.Equal(g.Kv.Value, want.Val) && g.Kv.Revision == want.Rev && string(g.Kv.Key) == k)
			if !ok {
				if want != nil && bytes.Equal(want.Val, []byte("tombstone")) && g.Kv == nil {
					c.Violatef(prop+" value==deletion-marker key-reads-absent", s.witness(), "%s Get(%q,rev=%d) returned absent; the key's value at that revision is the 9 bytes \"tombstone\" written by the client at revision %d", pass, k, R, want.Rev)
				} else {
					got := "absent"
					if g.Kv != nil {
						got = fmt.Sprintf("(%q,%d)", trimB(g.Kv.Value), g.Kv.Revision)
					}
					c.Violatef(prop+" get-differs-from-snapshot", s.witness(), "%s Get(%q,rev=%d) (ask #%d) returned %s; snapshot says %s", pass, k, R, rep+1, got, verS(want))
				}
				break
			}
		}
	}
	// range reads
	bounds := []string{full, full + "a", full + "a/", full + "a/b", full + "a0", full + "ab", full + "b", full + "a\xff", full + "\xff",
		string(backend.PrefixEnd([]byte(full))), string(backend.PrefixEnd([]byte(full + "a"))), string(backend.PrefixEnd([]byte(full + "a/"))),
		full + "a.", full + "a-", full + "A", full + "zz"}
	for i := 0; i < 10; i++ {
		a, b := bounds[r.Intn(len(bounds))], bounds[r.Intn(len(bounds))]
		if i == 0 {
			a, b = full, string(backend.PrefixEnd([]byte(full)))
		}
		if a >= b {
			a, b = b, a
		}
		if a == b {
			continue
		}
		want := s.m.Snapshot(a, b, R)
		limits := []int64{0, 1, int64(len(want)), int64(len(want)) + 1}
		if len(want) > 2 {
			limits = append(limits, int64(len(want))-1, int64(1+r.Intn(len(want))))
		}
		for _, lim := range limits {
			for rep := 0; rep < 2; rep++ {
				resp, err := s.n.List(a, b, R, lim)
				c.Stat("reads", 1)
				if err != nil {
					c.Violatef(prop+" list-error", s.witness(), "%s List(%q,%q,rev=%d,limit=%d) error %v", pass, a, b, R, lim, err)
					break
				}
				w := want
				more := false
				if lim > 0 && int64(len(want)) > lim {
					w = want[:lim]
					more = true
					s.nCut++
				}
				for _, kv := range resp.Kvs {
					if resp.Header.GetRevision() < kv.Revision {
						c.Violatef(prop+" list-header-below-data", s.witness(), "%s List header %d < kv revision %d", pass, resp.Header.GetRevision(), kv.Revision)
					}
				}
				if !sameKVs(w, resp.Kvs) || resp.More != more {
					// the deletion-marker finding also surfaces here: classify it narrowly
					wm := dropMarker(want)
					if len(wm) != len(want) {
						w2, more2 := wm, false
						if lim > 0 && int64(len(wm)) > lim {
							w2, more2 = wm[:lim], true
						}
						if sameKVs(w2, resp.Kvs) && resp.More == more2 {
							c.Violatef(prop+" value==deletion-marker key-reads-absent", s.witness(), "%s List(%q,%q,rev=%d,limit=%d) omits keys whose value is \"tombstone\": got %s want %s", pass, a, b, R, lim, kvStr(resp.Kvs), mkvStr(w))
							break
						}
					}
					c.Violatef(prop+" list-differs-from-snapshot", s.witness(), "%s List(%q,%q,rev=%d,limit=%d) (ask #%d) returned %s more=%v; snapshot says %s more=%v", pass, a, b, R, lim, rep+1, kvStr(resp.Kvs), resp.More, mkvStr(w), more)
					break
				}
			}
		}
	}
}

func trimB(b []byte) []byte {
	if len(b) > 16 {
		return b[:16]
	}
	return b
}

func verS(v *harness.Ver) string {
	if v == nil {
		return "absent"
	}
	return fmt.Sprintf("(%q,%d)", trimB(v.Val), v.Rev)
}

func newSeqNode(c *harness.Case, kind string, cfg backend.Config) (*harness.Node, *harness.Engine, bool) {
	eng, err := harness.NewEngine(kind)
	if err != nil {
		c.Inconclusive("engine: " + err.Error())
		return nil, nil, false
	}
	kv := eng.KV
	var rm *harness.RecMetrics
	if harness.IsMetricsKind(kind) {
		rm = harness.NewRecMetrics(true)
		kv = harness.WithMetrics(kv, rm)
	}
	n := harness.NewNode(harness.NodeOpts{KV: kv, Config: cfg, Metrics: rm})
	return n, eng, true
}

func runC03(c *harness.Case) {
	r := c.Rng
	kind := c03Engines[c.Index%len(c03Engines)]
	var keys []string
	nk := 3 + r.Intn(8)
	perm := r.Perm(len(c03Names))
	for i := 0; i < nk; i++ {
		keys = append(keys, harness.Prefix+"/"+c03Names[perm[i]])
	}
	allowMarker := c.Index%4 == 3
	nOps := 30 + r.Intn(120)
	if c.Tier == "thorough" && r.Intn(4) == 0 {
		nOps = 150 + r.Intn(150)
	}
	var n *harness.Node
	var eng *harness.Engine
	var fw *harness.Wrap // set in the cases that end with reads under a transient iterator error
	transient := c.Index%6 == 4
	if strings.Contains(kind, "/") || transient {
		// the same reads must hold when the engine reports several partitions (borders at stored or arbitrary internal keys)
		var kv storage.KvStorage
		if strings.Contains(kind, "/") {
			var ok bool
			kv, eng, _, ok = partitionedStore(c, r, strings.Split(kind, "/")[0], keys, 1000, nOps)
			if !ok {
				return
			}
		} else {
			var err error
			if eng, err = harness.NewEngine(strings.TrimSuffix(kind, "+m")); err != nil {
				c.Inconclusive("engine: " + err.Error())
				return
			}
			kv = eng.KV
		}
		if transient {
			fw = harness.NewWrap(kv)
			kv = fw
		}
		n = harness.NewNode(harness.NodeOpts{KV: kv, Config: backend.Config{EnableEtcdCompatibility: true}})
	} else {
		var ok bool
		n, eng, ok = newSeqNode(c, kind, backend.Config{EnableEtcdCompatibility: true})
		if !ok {
			return
		}
	}
	defer eng.Close()
	defer n.Retire()
	s := &seqCtx{c: c, n: n, m: harness.NewModel(), keys: keys}
	for i := 0; i < nOps; i++ {
		if !s.write(s.genOp(r, allowMarker), "C03") {
			return
		}
	}
	// pass A: every checkpoint (sampled when many) plus in-between revisions
	pickRevs := func() []uint64 {
		revs := []uint64{n.Start, n.Start + 1}
		step := 1
		if len(s.checks) > 40 {
			step = len(s.checks) / 40
		}
		for i := 0; i < len(s.checks); i += step {
			revs = append(revs, s.checks[i])
		}
		revs = append(revs, s.checks[len(s.checks)-1])
		for i := 0; i < 5; i++ {
			revs = append(revs, n.Start+uint64(r.Int63n(int64(n.Committed()-n.Start)+1)))
		}
		return revs
	}
	revsA := pickRevs()
	for _, R := range revsA {
		s.readPass("C03", R, "pass-A", r)
	}
	// more writes, then the same revisions must read the same
	for i := 0; i < 10+r.Intn(30); i++ {
		if !s.write(s.genOp(r, allowMarker), "C03") {
			return
		}
	}
	for _, R := range revsA[len(revsA)/2:] {
		s.readPass("C03", R, "pass-B(after more writes)", r)
	}
	// count at latest (etcd-compat on)
	full := harness.Prefix + "/"
	cr, err := n.B.Count(harness.Ctx, &proto.CountRequest{Key: []byte(full), End: backend.PrefixEnd([]byte(full))})
	wantAll := s.m.Snapshot(full, string(backend.PrefixEnd([]byte(full))), n.Committed())
	if err != nil {
		c.Violatef("C03 count-error", s.witness(), "Count error %v", err)
	} else if int(cr.Count) != len(wantAll) {
		if int(cr.Count) == len(dropMarker(wantAll)) {
			c.Violatef("C03 value==deletion-marker key-reads-absent", s.witness(), "Count=%d omits keys whose value is \"tombstone\" (snapshot has %d)", cr.Count, len(wantAll))
		} else {
			c.Violatef("C03 count-differs-from-snapshot", s.witness(), "Count=%d; snapshot at %d has %d keys", cr.Count, n.Committed(), len(wantAll))
		}
	}
	// compaction below a checkpoint must not change reads at or above it
	ci := len(s.checks) / 2
	Rc := s.checks[ci]
	if _, err := n.B.Compact(harness.Ctx, Rc); err != nil {
		c.Violatef("C03 compact-error", s.witness(), "Compact(%d) error %v", Rc, err)
	}
	var after []uint64
	for _, R := range pickRevs() {
		if R >= Rc {
			after = append(after, R)
		}
	}
	for _, R := range after {
		s.readPass("C03", R, fmt.Sprintf("pass-C(after Compact(%d))", Rc), r)
	}
	if c.Index%4 == 2 && c.R.Verdict == "held" && len(after) > 0 {
		// the same reads from six clients at once over the now unchanging history: what another reader is doing inside
		// the engine (an iterator being positioned, a scan in progress) must not show in anybody's snapshot
		full := harness.Prefix + "/"
		fullEnd := string(backend.PrefixEnd([]byte(full)))
		var wg sync.WaitGroup
		var mu sync.Mutex
		firstBad := ""
		var nReads int64
		for g := 0; g < 6; g++ {
			wg.Add(1)
			rr := newRand(r.Int63())
			go func(g int) {
				defer wg.Done()
				bad := func(msg string) {
					mu.Lock()
					if firstBad == "" {
						firstBad = msg
					}
					mu.Unlock()
				}
				for i := 0; i < 150; i++ {
					R := after[rr.Intn(len(after))]
					if rr.Intn(3) == 0 {
						R = 0
					}
					eff := R
					if R == 0 {
						eff = n.Committed()
					}
					atomic.AddInt64(&nReads, 1)
					if rr.Intn(2) == 0 {
						k := s.keys[rr.Intn(len(s.keys))]
						want := s.m.At(k, eff)
						gr, err := n.Get(k, R)
						if err != nil {
							bad(fmt.Sprintf("reader %d: Get(%q,rev=%d) error %v", g, k, R, err))
							return
						}
						if want != nil && bytes.Equal(want.Val, []byte("tombstone")) {
							continue // the recorded finding, not this monitor's subject
						}
						if ok := (want == nil && gr.Kv == nil) || (want != nil && gr.Kv != nil && bytes.Equal(gr.Kv.Value, want.Val) && gr.Kv.Revision == want.Rev); !ok {
							got := "absent"
							if gr.Kv != nil {
								got = fmt.Sprintf("(%q,%d)", trimB(gr.Kv.Value), gr.Kv.Revision)
							}
							bad(fmt.Sprintf("reader %d: Get(%q,rev=%d) returned %s; snapshot says %s", g, k, R, got, verS(want)))
							return
						}
						continue
					}
					want := s.m.Snapshot(full, fullEnd, eff)
					if len(dropMarker(want)) != len(want) {
						continue
					}
					lim := int64(0)
					if rr.Intn(2) == 0 && len(want) > 0 {
						lim = int64(1 + rr.Intn(len(want)))
					}
					resp, err := n.List(full, fullEnd, R, lim)
					if err != nil {
						bad(fmt.Sprintf("reader %d: List(rev=%d,limit=%d) error %v", g, R, lim, err))
						return
					}
					w := want
					if lim > 0 && int64(len(want)) > lim {
						w = want[:lim]
					}
					if !sameKVs(w, resp.Kvs) {
						bad(fmt.Sprintf("reader %d: List(rev=%d,limit=%d) returned %s; snapshot says %s", g, R, lim, kvStr(resp.Kvs), mkvStr(w)))
						return
					}
				}
			}(g)
		}
		wg.Wait()
		c.Stat("reads_by_concurrent_readers", atomic.LoadInt64(&nReads))
		if firstBad != "" {
			c.Violatef("C03 read-differs-from-snapshot readers=concurrent", s.witness(), "six clients reading an unchanging history at the same time: %s", firstBad)
		}
	}
	if fw != nil && c.R.Verdict == "held" {
		s.transientIterFaults(fw, r)
	}
	c.Stat("writes", int64(len(s.hist)))
	c.Stat("checkpoints", int64(len(s.checks)))
	c.Stat("failed_writes", int64(s.nFail))
	c.AddSet("engines", kind)
	c.Fingerprint(s.nDel > 0 && s.nMulti > 0 && s.nCut > 0, kind, string(s.outcomes), s.keys)
	if c.Index < 6 {
		h := s.hist
		if len(h) > 25 {
			h = h[:25]
		}
		c.R.Sample = map[string]interface{}{"engine": kind, "keys": s.keys, "first_ops": h, "read_revisions": len(revsA) + len(after)}
	}
	_ = time.Now
}

// transientIterFaults: one iterator of the range scan answers a single non-EOF error at its N-th step (N drawn over
// the number of engine records); the scanner retries that partition after its backoff. An answer that is still a
// success must be the snapshot - no key twice, none missing.
func (s *seqCtx) transientIterFaults(fw *harness.Wrap, r *rand.Rand) {
	c := s.c
	full := harness.Prefix + "/"
	fullEnd := string(backend.PrefixEnd([]byte(full)))
	encS, encE := coderC.EncodeObjectKey([]byte(full), 0), coderC.EncodeObjectKey([]byte(fullEnd), 0)
	recs, err := harness.Dump(fw.KvStorage, encS, encE)
	if err != nil || len(recs) < 3 {
		return
	}
	R := s.n.Committed()
	want := s.m.Snapshot(full, fullEnd, R)
	for trial := 0; trial < 2; trial++ {
		N := 1 + r.Intn(len(recs))
		var fired int32
		fw.IterFault = func(start, end []byte, n int) error {
			if n == N && atomic.CompareAndSwapInt32(&fired, 0, 1) {
				return errors.New("injected transient iterator error")
			}
			return nil
		}
		var got []*proto.KeyValue
		what := ""
		if trial == 0 {
			what = fmt.Sprintf("List(%q,%q,rev=%d,limit=0)", full, fullEnd, R)
			resp, lerr := s.n.List(full, fullEnd, R, 0)
			if lerr != nil {
				c.Stat("reads_failed_by_the_transient_iterator_error", 1)
				fw.IterFault = nil
				continue
			}
			got = resp.Kvs
		} else {
			what = fmt.Sprintf("ListByStream(rev=%d)", R)
			batches, serr := streamAll(s.n, encS, encE, R)
			failed := serr != nil
			for _, b := range batches {
				if b.Err != "" {
					failed = true
				}
				got = append(got, b.RangeResponse.GetKvs()...)
			}
			if failed {
				c.Stat("reads_failed_by_the_transient_iterator_error", 1)
				fw.IterFault = nil
				continue
			}
			sort.SliceStable(got, func(i, j int) bool { return bytes.Compare(got[i].Key, got[j].Key) < 0 })
		}
		fw.IterFault = nil
		if atomic.LoadInt32(&fired) == 1 {
			c.Stat("reads_answered_after_a_transient_iterator_error", 1)
		}
		if !sameKVs(want, got) {
			if sameKVs(dropMarker(want), got) {
				continue // the recorded deletion-marker finding, reported by the read passes
			}
			c.Violatef("C03 read-after-transient-iterator-error-differs-from-snapshot", s.witness(), "%s with one iterator error at step %d of a partition scan (retried by the scanner) answered %s; snapshot says %s", what, N, kvStr(got), mkvStr(want))
			return
		}
	}
}
