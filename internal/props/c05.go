package props

import (
	"bytes"
	"context"
	"fmt"
	"math/rand"
	"runtime"
	"strings"
	"sync"
	"sync/atomic"
	"time"

	proto "github.com/kubewharf/kubebrain-client/api/v2rpc"

	"github.com/kubewharf/kubebrain/pkg/backend"

	"verif/internal/harness"
)

// C05 — a watch delivers exactly the matching changes, once, in order — or is closed.

var c05Prefixes = []string{harness.Prefix + "/p/", harness.Prefix + "/p/a/", harness.Prefix + "/q/", harness.Prefix + "/p/a"} // the last is a string-prefix, not a path-prefix
var c05Keys = []string{"/p/a/x", "/p/a/y", "/p/ab", "/p/b", "/q/z", "/p/a"}
var c05Cache = []int{1, 2, 3, 8, 64, 0}

func init() {
	Registry["C05"] = &Prop{
		Plan: func(tier string) Plan {
			return Plan{Level: "exploration", NCases: pick(tier, 120, 9000), Batch: 6, CaseTimeout: 90,
				Rule: "case kinds: (stress) one writer issuing successful and failing writes over 4 prefixes while 4-10 watchers register with start revisions {0, below oldest cached, oldest, inside, newest, newest+1, far future}, event-cache sizes {1,2,3,8,64,default} (ring wraps under live watches), consumers fast/slow/stalled-then-resumed; " +
					"(placement) a hook blocks the registering watcher after subscription or after the cache read until exactly k more writes were committed, or blocks the sequencer before the cache insert / before the broadcast while a watcher registers; " +
					"(overflow) a stalled consumer until the 100+10000 batch buffers are full, then the removal of the slow subscriber is held at its entry hook while the consumer frees one slot and one more batch is fanned out; also the same without any hook. " +
					"oracle per watcher: received events are a prefix of E (acknowledged successful writes with rev>=S under P, by revision) with exact kind/key/value/prev-kv; strictly increasing; an open stream equals E through an acknowledged sentinel; refusal is a violation only for S in {0, inside the cached window, newest+1} at a quiescent registration. " +
					"non-trivial = case in which >=1 watcher registered while writes were in flight or placed by a hook, and >=1 failed write and >=1 delete occurred; distinct by (kind, cache size, placement, per-watcher delivered-count vector)",
				Assumptions: []string{"ground truth E is built from acknowledged write responses only", "watchdog expiry alone is inconclusive; a sentinel arriving after a gap decides without a clock"},
				MinConcl:    pick(tier, 90, 7000)}
		},
		Name: func(c *harness.Case) string {
			if c.Index%48 == 4 {
				return "large-catch-up"
			}
			switch k := c.Index % 12; {
			case k == 11:
				return "overflow-hooked"
			case k == 10:
				return "overflow-unhooked"
			case k >= 5:
				return "placement"
			}
			return "stress"
		},
		Run: func(c *harness.Case) {
			switch c.R.Name {
			case "overflow-hooked":
				runC05Overflow(c, true)
			case "overflow-unhooked":
				runC05Overflow(c, false)
			case "large-catch-up":
				runC05LargeCatchUp(c)
			case "placement":
				runC05Placement(c)
			default:
				runC05Stress(c)
			}
		},
	}
}

// truthEv is one acknowledged successful write, i.e. one expected event.
type truthEv struct {
	Rev     uint64
	Type    proto.Event_EventType
	Key     string
	Val     []byte // value written (PUT/CREATE) or previous value (DELETE)
	PrevRev uint64 // DELETE: previous mod revision
}

type watchTruth struct {
	mu  sync.Mutex
	evs []truthEv // in acknowledgement order; sorted by revision before use
}

func (t *watchTruth) add(op harness.SeqOp, out harness.Outcome) {
	if out.Err != "" || !out.Succeeded {
		return
	}
	ev := truthEv{Rev: out.Rev, Key: op.Key}
	switch {
	case op.Kind == "create" || (op.Kind == "update" && op.Exp == 0):
		ev.Type, ev.Val = proto.Event_CREATE, op.Val
	case op.Kind == "update":
		ev.Type, ev.Val = proto.Event_PUT, op.Val
	default:
		ev.Type, ev.Val, ev.PrevRev = proto.Event_DELETE, out.KvVal, out.KvRev
	}
	t.mu.Lock()
	t.evs = append(t.evs, ev)
	t.mu.Unlock()
}

func (t *watchTruth) sorted() []truthEv {
	t.mu.Lock()
	defer t.mu.Unlock()
	out := append([]truthEv(nil), t.evs...)
	for i := 1; i < len(out); i++ {
		for j := i; j > 0 && out[j].Rev < out[j-1].Rev; j-- {
			out[j], out[j-1] = out[j-1], out[j]
		}
	}
	return out
}

// wwatcher is one client-side watcher under observation.
type wwatcher struct {
	id           int
	S            uint64
	P            string
	Skind        string
	speed        string
	quiescentReg bool   // registered while no write was in flight
	regDealt     uint64 // highest revision dealt when the registration returned
	placed       string
	refused      bool
	refuseErr    string
	ch           <-chan []*proto.Event
	cancel       context.CancelFunc
	mu           sync.Mutex
	got          []*proto.Event
	batches      int
	closed       bool
	resume       chan struct{}
	done         chan struct{}
}

func (w *wwatcher) consume(r *rand.Rand) {
	defer close(w.done)
	if w.speed == "stalled" {
		<-w.resume
	}
	for batch := range w.ch {
		w.mu.Lock()
		w.got = append(w.got, batch...)
		w.batches++
		w.mu.Unlock()
		if w.speed == "slow" {
			time.Sleep(time.Duration(r.Intn(200)) * time.Microsecond)
		}
	}
	w.mu.Lock()
	w.closed = true
	w.mu.Unlock()
}

func (w *wwatcher) snapshot() ([]*proto.Event, bool) {
	w.mu.Lock()
	defer w.mu.Unlock()
	return append([]*proto.Event(nil), w.got...), w.closed
}

type watchRig struct {
	c           *harness.Case
	n           *harness.Node
	eng         *harness.Engine
	m           *harness.Model
	truth       watchTruth
	hist        []string
	hmu         sync.Mutex
	nFail, nDel int64
	inflight    int32
}

func newWatchRig(c *harness.Case, kind string, cacheSize int, ph func(string, uint64), noIdle bool) *watchRig {
	eng, err := harness.NewEngine(kind)
	if err != nil {
		c.Inconclusive(err.Error())
		return nil
	}
	n := harness.NewNode(harness.NodeOpts{KV: eng.KV, Config: backend.Config{WatchCacheSize: cacheSize}, PointHandler: ph, NoIdleYield: noIdle})
	return &watchRig{c: c, n: n, eng: eng, m: harness.NewModel()}
}

func (rg *watchRig) close() {
	rg.n.Retire()
	rg.eng.Close()
}

// write issues one request chosen from the model (successes and failures) and records the truth.
func (rg *watchRig) write(r *rand.Rand, wait bool) harness.Outcome {
	key := harness.Prefix + c05Keys[r.Intn(len(c05Keys))]
	live := rg.m.Live(key)
	var op harness.SeqOp
	val := []byte(fmt.Sprintf("w%d", len(rg.hist)))
	switch x := r.Intn(10); {
	case live == nil && x < 8:
		op = harness.SeqOp{Kind: "create", Key: key, Val: val}
	case live == nil:
		op = harness.SeqOp{Kind: "delete", Key: key} // fails
	case x < 5:
		op = harness.SeqOp{Kind: "update", Key: key, Val: val, Exp: live.Rev}
	case x < 6:
		op = harness.SeqOp{Kind: "update", Key: key, Val: val, Exp: live.Rev - 1} // fails
	case x < 7:
		op = harness.SeqOp{Kind: "create", Key: key, Val: val} // fails
	case x < 9:
		op = harness.SeqOp{Kind: "delete", Key: key, Exp: live.Rev}
	default:
		op = harness.SeqOp{Kind: "delete", Key: key}
	}
	return rg.do(op, wait)
}

func (rg *watchRig) do(op harness.SeqOp, wait bool) harness.Outcome {
	atomic.AddInt32(&rg.inflight, 1)
	out := rg.n.Do(op)
	if out.Err == "" && out.Succeeded {
		if op.Kind == "delete" {
			rg.m.Del(op.Key, out.Rev)
			atomic.AddInt64(&rg.nDel, 1)
		} else {
			rg.m.Put(op.Key, out.Rev, op.Val)
		}
	} else {
		atomic.AddInt64(&rg.nFail, 1)
	}
	rg.truth.add(op, out)
	rg.hmu.Lock()
	rg.hist = append(rg.hist, op.String()+" -> "+out.String())
	rg.hmu.Unlock()
	if wait && out.Err == "" && out.Rev > 0 {
		rg.n.WaitCommitted(out.Rev, 30*time.Second)
	}
	atomic.AddInt32(&rg.inflight, -1)
	return out
}

func (rg *watchRig) register(id int, S uint64, skind, P, speed string, r *rand.Rand) *wwatcher {
	w := &wwatcher{id: id, S: S, P: P, Skind: skind, speed: speed, resume: make(chan struct{}), done: make(chan struct{})}
	ctx, cancel := context.WithCancel(context.Background())
	w.cancel = cancel
	ch, err := rg.n.B.Watch(ctx, P, S)
	// quiescentReg is set by the caller for registrations made while no writer exists at all
	w.regDealt = rg.n.Dealt()
	if err != nil {
		w.refused, w.refuseErr = true, err.Error()
		cancel()
		close(w.done)
		return w
	}
	w.ch = ch
	go w.consume(newRand(r.Int63()))
	return w
}

func evStr(e *proto.Event) string {
	return fmt.Sprintf("%s %q=%q rev=%d kvrev=%d", e.Type, e.Kv.GetKey(), trimB(e.Kv.GetValue()), e.Revision, e.Kv.GetRevision())
}

func tStr(e truthEv) string {
	return fmt.Sprintf("%s %q=%q rev=%d prev=%d", e.Type, e.Key, trimB(e.Val), e.Rev, e.PrevRev)
}

// judge compares what one watcher received with the truth. mustBeComplete: the stream is expected
// to have delivered everything up to and including sentinelRev (if it is still open).
func (rg *watchRig) judge(w *wwatcher, all []truthEv, sentinelRev map[string]uint64, window [2]uint64, cacheEmpty bool, extra map[string]interface{}) {
	c := rg.c
	wit := func() interface{} {
		rg.hmu.Lock()
		h := append([]string(nil), rg.hist...)
		rg.hmu.Unlock()
		if len(h) > 200 {
			h = h[len(h)-200:]
		}
		got, closed := w.snapshot()
		var gs []string
		for i, e := range got {
			if i > 100 {
				break
			}
			gs = append(gs, evStr(e))
		}
		m := map[string]interface{}{"watcher": fmt.Sprintf("#%d start=%d(%s) prefix=%q consumer=%s placed=%s", w.id, w.S, w.Skind, w.P, w.speed, w.placed),
			"received": gs, "closed": closed, "writes_tail": h}
		for k, v := range extra {
			m[k] = v
		}
		return m
	}
	if w.refused {
		c.Stat("watches_refused", 1)
		if w.quiescentReg && (w.Skind == "zero" || w.Skind == "inside" || w.Skind == "newest" || w.Skind == "newest+1" || w.Skind == "oldest") && !(cacheEmpty && w.Skind != "zero" && w.Skind != "newest+1") {
			c.Violatef("C05 watch-refused-although-history-is-cached start="+w.Skind, wit(), "watch start=%d (%s; cached window [%d,%d]) was refused: %s", w.S, w.Skind, window[0], window[1], w.refuseErr)
		}
		return
	}
	c.Stat("watches_accepted", 1)
	got, closed := w.snapshot()
	// a watch from revision 0 starts "now": it may begin with any change that was still in flight at
	// registration, but not later than the first change whose revision was dealt after the registration returned
	sEff := w.S
	if w.S == 0 {
		sEff = w.regDealt + 1
		if len(got) > 0 && got[0].Revision < sEff {
			sEff = got[0].Revision
		}
	}
	var E []truthEv
	for _, e := range all {
		if e.Rev >= sEff && strings.HasPrefix(e.Key, w.P) {
			E = append(E, e)
		}
	}
	c.Stat("events_received", int64(len(got)))
	var last uint64
	for i, g := range got {
		if g.Revision <= last {
			sig := "C05 events-not-strictly-increasing"
			if g.Revision == last {
				sig = "C05 event-delivered-twice"
			}
			c.Violatef(sig, wit(), "event #%d %s follows revision %d", i, evStr(g), last)
			return
		}
		last = g.Revision
		if i >= len(E) {
			c.Violatef("C05 unexpected-event", wit(), "event #%d %s: no acknowledged successful write matches (expected %d events)", i, evStr(g), len(E))
			return
		}
		e := E[i]
		if g.Revision != e.Rev {
			// classify: skipped or spurious
			if g.Revision > e.Rev {
				c.Violatef("C05 stream-continued-past-undelivered-event", wit(), "event #%d is %s but the next matching change is %s: the stream skipped it and went on", i, evStr(g), tStr(e))
			} else {
				c.Violatef("C05 unexpected-event", wit(), "event #%d %s does not correspond to an acknowledged matching write (next expected %s)", i, evStr(g), tStr(e))
			}
			return
		}
		okPayload := g.Type == e.Type && string(g.Kv.GetKey()) == e.Key && bytes.Equal(g.Kv.GetValue(), e.Val)
		if e.Type == proto.Event_DELETE {
			okPayload = okPayload && g.Kv.GetRevision() == e.PrevRev
		} else {
			okPayload = okPayload && g.Kv.GetRevision() == e.Rev
		}
		if !okPayload {
			c.Violatef("C05 event-payload-wrong type="+e.Type.String(), wit(), "event #%d is %s; the acknowledged write says %s", i, evStr(g), tStr(e))
			return
		}
	}
	if !closed {
		// an open stream must have delivered everything through the sentinel under its prefix
		need := 0
		for _, e := range E {
			if sr, ok := sentinelRev[w.P]; ok && e.Rev <= sr {
				need++
			}
		}
		if len(got) < need {
			c.Violatef("C05 open-stream-stopped-short", wit(), "the stream is open and quiescent but delivered %d of the %d matching changes up to the acknowledged sentinel", len(got), need)
		}
	} else {
		c.Stat("streams_closed_by_node", 1)
	}
}

// finish writes one sentinel per prefix and waits until every open watcher has seen its sentinel.
func (rg *watchRig) finish(ws []*wwatcher) (map[string]uint64, bool) {
	sent := map[string]uint64{}
	for i, P := range c05Prefixes {
		key := P
		if !strings.HasSuffix(P, "/") {
			key = P + "/"
		}
		key += fmt.Sprintf("zz-sentinel-%d", i)
		out := rg.do(harness.SeqOp{Kind: "create", Key: key, Val: []byte("s")}, true)
		if out.Err != "" || !out.Succeeded {
			rg.c.Inconclusive("sentinel write failed")
			return nil, false
		}
		sent[P] = out.Rev
	}
	// a sentinel under a longer prefix also matches shorter ones; the per-prefix sentinel is its own key
	deadline := time.Now().Add(60 * time.Second)
	for _, w := range ws {
		if w.refused {
			continue
		}
		if w.speed == "stalled" {
			select {
			case <-w.resume:
			default:
				close(w.resume)
			}
		}
		if w.Skind == "future" {
			continue // a far-future watch legitimately sees nothing
		}
		for {
			got, closed := w.snapshot()
			if closed || (len(got) > 0 && got[len(got)-1].Revision >= sent[w.P]) {
				break
			}
			if time.Now().After(deadline) {
				// decided by the oracle (open-stream-stopped-short) only if the sequencer is quiescent
				if rg.n.Committed() < rg.n.Dealt() {
					rg.c.Inconclusive("watchdog: sequencer not quiescent")
					return sent, false
				}
				break
			}
			time.Sleep(200 * time.Microsecond)
		}
	}
	return sent, true
}

func chooseStart(r *rand.Rand, kind string, cached []truthEv, committed uint64) uint64 {
	switch kind {
	case "zero":
		return 0
	case "below":
		if len(cached) > 0 && cached[0].Rev > 2 {
			return cached[0].Rev - 1 - uint64(r.Intn(3))
		}
		return 1
	case "oldest":
		if len(cached) > 0 {
			return cached[0].Rev
		}
	case "inside":
		if len(cached) > 0 {
			return cached[r.Intn(len(cached))].Rev
		}
	case "newest":
		if len(cached) > 0 {
			return cached[len(cached)-1].Rev
		}
	case "newest+1":
		if len(cached) > 0 {
			return cached[len(cached)-1].Rev + 1
		}
		return committed + 1
	case "future":
		return committed + 100000
	}
	return committed + 1
}

var startKinds = []string{"zero", "below", "oldest", "inside", "newest", "newest+1", "future", "inside", "newest+1"}

func cachedWindow(all []truthEv, size int) []truthEv {
	if size <= 0 {
		size = 200000
	}
	if len(all) > size {
		return all[len(all)-size:]
	}
	return all
}

func runC05Stress(c *harness.Case) {
	r := c.Rng
	kind := []string{"memkv", "memkv", "badger", "tikv"}[r.Intn(4)]
	cache := c05Cache[r.Intn(len(c05Cache))]
	rg := newWatchRig(c, kind, cache, nil, c.Index%7 == 3)
	if rg == nil {
		return
	}
	defer rg.close()
	// phase 1: fill (and wrap) the cache
	for i := 0; i < 5+r.Intn(40); i++ {
		rg.write(r, true)
	}
	var ws []*wwatcher
	speeds := []string{"fast", "fast", "slow", "stalled"}
	// quiescent registrations: the cached window is known exactly
	all := rg.truth.sorted()
	win := cachedWindow(all, cache)
	freshNode := c.Index%5 == 2
	if freshNode {
		// the node is replaced (restart / fail-over): a new backend over the same store starts at the old one's
		// revision with an EMPTY event cache. Watches are then asked from exactly that revision (a real change the new
		// node cannot replay), from just below, from the next one and from zero, on every prefix.
		for len(all) == 0 || all[len(all)-1].Rev != rg.n.Committed() {
			rg.write(r, true) // make the current revision a successful change
			all = rg.truth.sorted()
		}
		cur := rg.n.Committed()
		rg.n.Retire()
		rg.n = harness.NewNode(harness.NodeOpts{KV: rg.eng.KV, StartRev: cur, Config: backend.Config{WatchCacheSize: cache}, NoIdleYield: c.Index%7 == 3})
		win = nil
		for _, P := range c05Prefixes {
			for _, st := range []struct {
				kind string
				S    uint64
			}{{"at-current(empty cache)", cur}, {"below", cur - 1}, {"newest+1", cur + 1}, {"zero", 0}} {
				w := rg.register(len(ws), st.S, st.kind, P, "fast", r)
				w.quiescentReg = true
				ws = append(ws, w)
			}
		}
		c.Stat("registrations_on_a_fresh_node_with_empty_cache", int64(len(ws)))
	}
	window := [2]uint64{0, 0}
	if len(win) > 0 {
		window = [2]uint64{win[0].Rev, win[len(win)-1].Rev}
	}
	nq := 2 + r.Intn(4)
	for i := 0; i < nq; i++ {
		sk := startKinds[r.Intn(len(startKinds))]
		w := rg.register(len(ws), chooseStart(r, sk, win, rg.n.Committed()), sk, c05Prefixes[r.Intn(len(c05Prefixes))], speeds[r.Intn(len(speeds))], r)
		w.quiescentReg = true
		ws = append(ws, w)
	}
	cacheEmpty := len(win) == 0
	// phase 2: concurrent writer + registrations in flight
	var wg sync.WaitGroup
	wr := newRand(r.Int63())
	nw := 30 + r.Intn(150)
	wg.Add(1)
	go func() {
		defer wg.Done()
		for i := 0; i < nw; i++ {
			rg.write(wr, wr.Intn(4) == 0)
		}
	}()
	nc := 2 + r.Intn(5)
	concurrentRegs := 0
	for i := 0; i < nc; i++ {
		time.Sleep(time.Duration(r.Intn(300)) * time.Microsecond)
		cur := rg.truth.sorted()
		sk := startKinds[r.Intn(len(startKinds))]
		w := rg.register(len(ws), chooseStart(r, sk, cachedWindow(cur, cache), rg.n.Committed()), sk, c05Prefixes[r.Intn(len(c05Prefixes))], speeds[r.Intn(len(speeds))], r)
		concurrentRegs++
		ws = append(ws, w)
	}
	wg.Wait()
	sent, ok := rg.finish(ws)
	if !ok {
		return
	}
	all = rg.truth.sorted()
	var vec []int
	for _, w := range ws {
		rg.judge(w, all, sent, window, cacheEmpty, map[string]interface{}{"cache_size": cache, "engine": kind})
		got, _ := w.snapshot()
		vec = append(vec, len(got))
		c.AddSet("start_kinds", w.Skind)
		c.AddSet("consumers", w.speed)
		w.cancel()
	}
	c.Stat("writes", int64(len(rg.hist)))
	c.Stat("registrations_with_writes_in_flight", int64(concurrentRegs))
	c.AddSet("cache_sizes", fmt.Sprint(cache))
	c.Fingerprint(concurrentRegs > 0 && rg.nFail > 0 && rg.nDel > 0, "stress", cache, vec)
	if c.Index < 5 {
		var d []string
		for _, w := range ws {
			got, closed := w.snapshot()
			d = append(d, fmt.Sprintf("watcher#%d start=%d(%s) prefix=%q %s refused=%v received=%d closed=%v", w.id, w.S, w.Skind, w.P, w.speed, w.refused, len(got), closed))
		}
		c.R.Sample = map[string]interface{}{"engine": kind, "cache_size": cache, "writes": len(rg.hist), "watchers": d}
	}
}

// runC05Placement uses the hook points to place the registration relative to concurrent writes.
func runC05Placement(c *harness.Case) {
	r := c.Rng
	points := []string{"afterSubscribe", "afterCacheRead", "beforeCacheAdd", "beforeBroadcast"}
	point := points[r.Intn(len(points))]
	k := r.Intn(4)
	cache := c05Cache[r.Intn(len(c05Cache))]
	if cache > 0 && cache <= 8 {
		// a small cache: enough writes during the hold to wrap the ring over what the held watcher has just read
		k = r.Intn(cache + 4)
	}
	// every third placement case is laid out exactly: a cache of 2, 3, 4 or 8 slots that has wrapped, the watcher starts
	// among the events written since the last wrap (what it has to catch up on is one contiguous piece of the ring's
	// array) and is held right after reading the cache while a full lap of further events is written over those slots
	wrapOver := r.Intn(3) == 0
	if wrapOver {
		cache = []int{2, 3, 4, 8}[r.Intn(4)]
		point = "afterCacheRead"
	}
	var armed int32
	reached := make(chan struct{}, 1)
	release := make(chan struct{})
	var once sync.Once
	ph := func(name string, arg uint64) {
		if name == point && atomic.CompareAndSwapInt32(&armed, 1, 2) {
			reached <- struct{}{}
			<-release
		}
	}
	rg := newWatchRig(c, "memkv", cache, ph, false)
	if rg == nil {
		return
	}
	defer rg.close()
	defer once.Do(func() { close(release) })
	for i := 0; i < 3+r.Intn(20); i++ {
		rg.write(r, true)
	}
	if wrapOver {
		for i := 0; i < 200 && (len(rg.truth.sorted()) <= cache || len(rg.truth.sorted())%cache == 0); i++ {
			rg.write(r, true)
		}
	}
	all := rg.truth.sorted()
	win := cachedWindow(all, cache)
	window := [2]uint64{0, 0}
	if len(win) > 0 {
		window = [2]uint64{win[0].Rev, win[len(win)-1].Rev}
	}
	sk := []string{"inside", "newest", "newest+1", "oldest", "zero"}[r.Intn(5)]
	S := chooseStart(r, sk, win, rg.n.Committed())
	if wrapOver {
		if sinceWrap := len(all) % cache; sinceWrap > 0 && len(win) >= sinceWrap {
			sk = "inside"
			S = win[len(win)-1-r.Intn(sinceWrap)].Rev
		}
	}
	P := c05Prefixes[r.Intn(len(c05Prefixes))]
	var w *wwatcher
	placed := fmt.Sprintf("%s+%d", point, k)
	switch point {
	case "afterSubscribe", "afterCacheRead":
		// hold the registering goroutine at the point until exactly k more writes were committed
		atomic.StoreInt32(&armed, 1)
		regDone := make(chan struct{})
		regRand := newRand(r.Int63())
		go func() {
			w = rg.register(0, S, sk, P, "fast", regRand)
			close(regDone)
		}()
		select {
		case <-reached:
			for i := 0; i < k; i++ {
				rg.write(r, true)
			}
			if wrapOver {
				for i, n0 := 0, len(rg.truth.sorted()); i < 200 && len(rg.truth.sorted()) < n0+cache; i++ {
					rg.write(r, true)
				}
				c.Stat("catch_ups_read_and_then_overwritten_by_a_full_lap_of_the_ring", 1)
			}
			// let cache insert and broadcast of those writes happen too
			time.Sleep(2 * time.Millisecond)
			once.Do(func() { close(release) })
		case <-regDone: // the point is not on this path (start revision 0 skips the cache read)
		case <-time.After(30 * time.Second):
			c.Inconclusive("hook point " + point + " never reached")
			return
		}
		<-regDone
		w.quiescentReg = k == 0
	default:
		// hold the sequencer at the point (committed set / batch cached but not broadcast) while a watcher registers
		for i := 0; i < k; i++ {
			rg.write(r, true)
		}
		atomic.StoreInt32(&armed, 1)
		wdone := make(chan struct{})
		go func() {
			// successful writes until the sequencer is caught at the point
			for atomic.LoadInt32(&armed) == 1 {
				rg.write(r, false)
			}
			close(wdone)
		}()
		select {
		case <-reached:
		case <-time.After(30 * time.Second):
			c.Inconclusive("hook point " + point + " never reached")
			return
		}
		<-wdone
		w = rg.register(0, S, sk, P, "fast", r)
		w.quiescentReg = false
		time.Sleep(time.Millisecond)
		once.Do(func() { close(release) })
	}
	w.placed = placed
	for i := 0; i < 3+r.Intn(10); i++ {
		rg.write(r, true)
	}
	sent, ok := rg.finish([]*wwatcher{w})
	if !ok {
		return
	}
	rg.judge(w, rg.truth.sorted(), sent, window, len(win) == 0, map[string]interface{}{"cache_size": cache, "placement": placed})
	got, _ := w.snapshot()
	w.cancel()
	c.AddSet("placements", point)
	c.AddSet("start_kinds", sk)
	c.Stat("placements_reached", int64(atomic.LoadInt32(&armed)/2))
	c.Fingerprint(atomic.LoadInt32(&armed) == 2 && rg.nFail > 0 && rg.nDel > 0, "placement", placed, cache, sk, len(got))
	if c.Index%12 == 5 && c.Index < 40 {
		c.R.Sample = map[string]interface{}{"placement": placed, "cache_size": cache, "start": fmt.Sprintf("%d(%s)", S, sk), "prefix": P, "received": len(got), "refused": w.refused}
	}
}

// runC05Overflow: a consumer that lets its buffers overflow.
func runC05Overflow(c *harness.Case, hooked bool) {
	r := c.Rng
	var slow int32
	var held, hubHeld int32
	reached := make(chan struct{}, 4)
	release := make(chan struct{})
	var once sync.Once
	ph := func(name string, arg uint64) {
		if !hooked {
			if name == "slowSubscriber" {
				atomic.AddInt32(&slow, 1)
			}
			return
		}
		switch name {
		case "slowSubscriber":
			atomic.AddInt32(&slow, 1)
		case "deleteWatcher.enter":
			// the removal of the slow subscriber has been started but is "not yet scheduled"
			// every removal started after the first drop is held until the placement is complete
			if atomic.LoadInt32(&slow) > 0 {
				if atomic.CompareAndSwapInt32(&held, 0, 1) {
					buf := make([]byte, 8192)
					if bytes.Contains(buf[:runtime.Stack(buf, false)], []byte("(*WatcherHub).Stream")) {
						atomic.StoreInt32(&hubHeld, 1) // the fan-out goroutine itself performs the removal
					}
					reached <- struct{}{}
				}
				<-release
			}
		}
	}
	rg := newWatchRig(c, "memkv", 64, ph, false)
	if rg == nil {
		return
	}
	defer rg.close()
	defer once.Do(func() { close(release) })
	P := harness.Prefix + "/p/"
	ctx, cancel := context.WithCancel(context.Background())
	defer cancel()
	ch, err := rg.n.B.Watch(ctx, P, 0)
	if err != nil {
		c.Inconclusive("watch refused: " + err.Error())
		return
	}
	key := harness.Prefix + "/p/k"
	out := rg.do(harness.SeqOp{Kind: "create", Key: key, Val: []byte("v0")}, true)
	lastRev := out.Rev
	writeOne := func(i int) bool {
		o := rg.do(harness.SeqOp{Kind: "update", Key: key, Val: []byte(fmt.Sprintf("v%d", i)), Exp: lastRev}, true)
		if o.Err != "" || !o.Succeeded {
			c.Inconclusive("overflow writer failed: " + o.String())
			return false
		}
		lastRev = o.Rev
		return true
	}
	var got []*proto.Event
	closed := false
	if hooked {
		// stall the consumer until the hub hits the full buffer (each write is its own batch)
		i := 1
		for ; i < 12000 && atomic.LoadInt32(&slow) == 0; i++ {
			if !writeOne(i) {
				return
			}
		}
		if atomic.LoadInt32(&slow) == 0 {
			c.Inconclusive("the subscriber buffer never overflowed")
			return
		}
		select {
		case <-reached:
		case <-time.After(30 * time.Second):
			c.Inconclusive("removal of the slow subscriber never started")
			return
		}
		// let the hub work off what is already queued (further drops), so that the buffer state is known
		s0 := atomic.LoadInt32(&slow)
		for stable := 0; stable < 20; {
			time.Sleep(time.Millisecond)
			if v := atomic.LoadInt32(&slow); v != s0 {
				s0, stable = v, 0
			} else {
				stable++
			}
		}
		// the consumer frees exactly one slot ...
		b := <-ch
		got = append(got, b...)
		time.Sleep(2 * time.Millisecond) // lets processEvents move one batch from the subscription to the result channel
		// ... and the hub fans out one more batch before the removal runs
		// (a second drop proves that the hub has fanned out the batch before it; if the hub itself is the one
		// held at the hook no second drop can happen and the bounded wait simply expires)
		for j := 0; j < 4; j++ {
			if !writeOne(i + j) {
				return
			}
		}
		placedOK := false
		for t := 0; t < 40000; t++ {
			if atomic.LoadInt32(&slow) > s0 || atomic.LoadInt32(&hubHeld) == 1 {
				placedOK = true
				break
			}
			time.Sleep(500 * time.Microsecond)
		}
		once.Do(func() { close(release) })
		if !placedOK {
			c.Inconclusive("placement not achieved: the hub did not fan out a further batch while the removal was held")
			return
		}
	} else {
		// no hook blocking: a consumer taking one batch every 0-50us against a fast writer
		var wg sync.WaitGroup
		wg.Add(1)
		stopW := make(chan struct{})
		go func() {
			defer wg.Done()
			for i := 1; i < 14000; i++ {
				select {
				case <-stopW:
					return
				default:
				}
				if !writeOne(i) {
					return
				}
			}
		}()
		// stall until the first overflow, then consume slowly
		for atomic.LoadInt32(&slow) == 0 {
			select {
			case <-time.After(50 * time.Microsecond):
			}
			if lastRevLoad := rg.n.Committed(); lastRevLoad > rg.n.Start+13900 {
				break
			}
		}
		wdone := make(chan struct{})
		go func() { wg.Wait(); close(wdone) }()
		idle := 0
	loop:
		for {
			select {
			case b, ok := <-ch:
				if !ok {
					closed = true
					break loop
				}
				idle = 0
				got = append(got, b...)
				if r.Intn(4) == 0 {
					time.Sleep(time.Duration(r.Intn(50)) * time.Microsecond)
				}
			case <-time.After(200 * time.Millisecond):
				select {
				case <-wdone:
					idle++
					if idle > 5 {
						break loop // writer finished and nothing more arrives: the consumer kept up
					}
				default:
				}
			}
		}
		close(stopW)
		wg.Wait()
	}
	// drain what is left
	if !closed {
		tm := time.After(20 * time.Second)
	drain:
		for {
			select {
			case b, ok := <-ch:
				if !ok {
					closed = true
					break drain
				}
				got = append(got, b...)
			case <-tm:
				break drain
			}
		}
	}
	w := &wwatcher{id: 0, S: 0, P: P, Skind: "zero", speed: "overflowing", got: got, closed: closed}
	if hooked {
		w.placed = "removal-held-at-entry"
	}
	all := rg.truth.sorted()
	sent := map[string]uint64{}
	if !closed {
		// the stream survived: it must then be complete
		sent[P] = lastRev
		if rg.n.Committed() < rg.n.Dealt() {
			c.Inconclusive("sequencer not quiescent")
			return
		}
	}
	rg.judge(w, all, sent, [2]uint64{}, false, map[string]interface{}{"hooked": hooked, "slow_subscriber_drops": atomic.LoadInt32(&slow)})
	if closed && c.R.Verdict != "violated" {
		// epilogue: the dropped consumer has read the end of its stream and now gives up its request too. The node must
		// go on accepting watches and feeding them: a new watch right behind the last write, three more writes.
		cancel()
		time.Sleep(2 * time.Millisecond)
		type wres struct {
			ch  <-chan []*proto.Event
			err error
		}
		rc := make(chan wres, 1)
		ctx2, cancel2 := context.WithCancel(context.Background())
		defer cancel2()
		from := lastRev + 1
		go func() {
			ch2, err := rg.n.B.Watch(ctx2, P, from)
			rc <- wres{ch2, err}
		}()
		var res wres
		select {
		case res = <-rc:
		case <-time.After(45 * time.Second):
			c.Violatef("C05 watch-registration-never-returns after=slow-consumer-drop", map[string]interface{}{"hooked": hooked, "drops": atomic.LoadInt32(&slow)},
				"after a slow consumer was dropped and had ended its request, a new Watch(%q, %d) did not return within 45 s on an idle node", P, from)
			return
		}
		if res.err != nil {
			c.Inconclusive("watch after the drop refused: " + res.err.Error())
			return
		}
		var wantRevs []uint64
		for j := 0; j < 3; j++ {
			if !writeOne(20000 + j) {
				return
			}
			wantRevs = append(wantRevs, lastRev)
		}
		var gotRevs []uint64
		tm := time.After(45 * time.Second)
	after:
		for len(gotRevs) < len(wantRevs) {
			select {
			case b, ok := <-res.ch:
				if !ok {
					break after
				}
				for _, e := range b {
					gotRevs = append(gotRevs, e.Revision)
				}
			case <-tm:
				break after
			}
		}
		if fmt.Sprint(gotRevs) != fmt.Sprint(wantRevs) {
			c.Violatef("C05 events-not-delivered after=slow-consumer-drop", map[string]interface{}{"hooked": hooked, "drops": atomic.LoadInt32(&slow), "want": wantRevs, "got": gotRevs},
				"after a slow consumer was dropped and had ended its request, a watch from %d received revisions %v for the successful writes %v", from, gotRevs, wantRevs)
			return
		}
		c.Stat("watches_fed_after_a_slow_consumer_drop", 1)
	}
	c.Stat("overflow_drops_seen", int64(atomic.LoadInt32(&slow)))
	c.Stat("writes", int64(len(all)))
	c.Stat("events_received_by_overflowing_consumer", int64(len(got)))
	c.AddSet("consumers", "overflowing")
	c.Fingerprint(atomic.LoadInt32(&slow) > 0, "overflow", hooked, len(got), closed)
	c.R.Sample = map[string]interface{}{"hooked": hooked, "writes": len(all), "received": len(got), "closed_by_node": closed, "drops": atomic.LoadInt32(&slow)}
}

// runC05LargeCatchUp: a watch that has to catch up on more cached history than fits into its result channel in
// default-sized batches (more than 100 x 300 events, a count that is not a multiple of 100): the backlog has to be
// re-batched so that registering the watch does not block, and every event must still arrive once, in order.
func runC05LargeCatchUp(c *harness.Case) {
	r := c.Rng
	rg := newWatchRig(c, "memkv", 0, nil, true)
	if rg == nil {
		return
	}
	defer rg.close()
	P := harness.Prefix + "/p/"
	n := 30001 + r.Intn(400)
	if n%100 == 0 {
		n++
	}
	key := P + "big"
	out := rg.do(harness.SeqOp{Kind: "create", Key: key, Val: []byte("v0")}, false)
	first, last := out.Rev, out.Rev
	for i := 1; i < n; i++ {
		o := rg.do(harness.SeqOp{Kind: "update", Key: key, Val: []byte("v"), Exp: last}, false)
		if o.Err != "" || !o.Succeeded {
			c.Inconclusive("set-up write failed: " + o.String())
			return
		}
		last = o.Rev
	}
	rg.n.WaitCommitted(last, 60*time.Second)
	w := rg.register(0, first, "oldest", P, "fast", r)
	w.quiescentReg = true
	sent, ok := rg.finish([]*wwatcher{w})
	if !ok {
		return
	}
	all := rg.truth.sorted()
	rg.judge(w, all, sent, [2]uint64{first, last}, false, map[string]interface{}{"cache_size": "default", "engine": "memkv", "backlog": n})
	got, _ := w.snapshot()
	c.Stat("large_catch_up_events_delivered", int64(len(got)))
	c.AddSet("start_kinds", "oldest(large backlog)")
	c.Fingerprint(len(got) >= n, "large-catch-up", n)
	w.cancel()
}
