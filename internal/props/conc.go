package props

import (
	"bytes"
	"context"
	"encoding/binary"
	"fmt"
	"math/rand"
	"runtime"
	"sort"
	"strings"
	"sync"
	"sync/atomic"
	"time"

	"github.com/anishathalye/porcupine"

	"github.com/kubewharf/kubebrain/pkg/backend"
	"github.com/kubewharf/kubebrain/pkg/backend/coder"
	"github.com/kubewharf/kubebrain/pkg/storage"

	"verif/internal/harness"
)

// The concurrent client workload shared by C01, C02, C04 (and, under -race, C19).

// COp is one recorded client operation. Call/Ret come from one process-wide atomic counter, so
// they are a total order consistent with real time; no wall clock takes part in any verdict.
type COp struct {
	Client int             `json:"client"`
	Kind   string          `json:"kind"` // create|update|delete|get|list
	Key    string          `json:"key"`
	Val    string          `json:"val,omitempty"`
	Exp    uint64          `json:"exp,omitempty"`
	Rev    uint64          `json:"read_rev,omitempty"` // reads: requested revision
	Call   int64           `json:"call"`
	Ret    int64           `json:"ret"`
	Out    harness.Outcome `json:"out"`
	// reads
	Kvs []harness.MKV `json:"kvs,omitempty"`
	// the request context was already cancelled when the request was made
	DeadCtx bool `json:"dead_ctx,omitempty"`
}

func (o *COp) String() string {
	return fmt.Sprintf("[c%d %d..%d] %s(%q val=%q exp=%d) -> %s", o.Client, o.Call, o.Ret, o.Kind, o.Key, o.Val, o.Exp, o.Out)
}

// StoreWrite is a backend write batch observed at the storage boundary.
type StoreWrite struct {
	Raw     string
	Rev     uint64
	Val     []byte
	Applied bool
	Ret     string
	// committed read revision sampled right after the engine answered and before the backend learns the outcome
	CommittedAfter uint64
	// revision held by the index record this batch replaced (compare-and-swap batches only)
	PrevIdxRev uint64
	HasPrev    bool
}

type concCfg struct {
	deadCtxPct   int // share of the write requests issued with a context that is already cancelled (the client gave up)
	kind         string
	clients      int
	keys         int
	opsPer       int
	maxDelayUs   int
	faultPct     int  // % of write batches answered with a definite storage error
	uncertainPct int  // % of write batches answered 'outcome unknown' (half of them applied)
	futurePct    int  // % of guarded writes that name a far-future expectation
	readers      int  // concurrent list readers (snapshot stability)
	noIdle       bool // production sequencer timing
	compactor    bool // a compaction loop (Compact(committed - small lag)) runs next to the clients
	compactAhead bool // the compaction loop names revisions above the readable one (a client's idea of "now" from another node)
	watchers     int  // clients that keep opening watches from the current revision (served from the event cache) and closing them
	initStates   []string
}

type concRun struct {
	cfg         concCfg
	n           *harness.Node
	eng         *harness.Engine
	w           *harness.Wrap
	keys        []string
	init        *harness.Model // versions written during set-up (sequential)
	ops         []*COp
	mu          sync.Mutex
	store       []StoreWrite
	stamp       int64
	online      []string // online monitor violations
	oooDone     int64    // commits that completed out of allocation order
	maxDone     uint64
	floor       uint64 // compaction revision used in set-up (0 if none)
	faultOn     int32
	compactions int64
	stalled     bool // run() gave up: no request returned any more (violation recorded); nothing else can be judged
}

func (cr *concRun) tick() int64 { return atomic.AddInt64(&cr.stamp, 1) }

var coderC = coder.NewNormalCoder()

// setup builds engine + wrapper + node and brings every key into its initial state.
func newConcRun(c *harness.Case, cfg concCfg) *concRun {
	r := c.Rng
	var eng *harness.Engine
	var ekv storage.KvStorage
	if strings.Contains(cfg.kind, "/") {
		// an engine reporting several partitions (borders among the versions the workload is about to write)
		var keys []string
		for i := 0; i < cfg.keys; i++ {
			keys = append(keys, fmt.Sprintf("%s/k%d", harness.Prefix, i))
		}
		var ok bool
		if ekv, eng, _, ok = partitionedStore(c, newRand(r.Int63()), strings.Split(cfg.kind, "/")[0], keys, 1000, cfg.clients*cfg.opsPer/2+4); !ok {
			return nil
		}
	} else {
		var err error
		if eng, err = harness.NewEngine(cfg.kind); err != nil {
			c.Inconclusive("engine: " + err.Error())
			return nil
		}
		ekv = eng.KV
	}
	cr := &concRun{cfg: cfg, eng: eng, init: harness.NewModel()}
	w := harness.NewWrap(ekv)
	cr.w = w
	// on memkv every other case keeps the engine's begin-to-commit lock semantics (see Wrap.EagerBegin)
	w.EagerBegin = strings.HasPrefix(cfg.kind, "memkv") && c.Index%2 == 1
	delaySeed := r.Int63()
	faultOn := &cr.faultOn
	w.BeforeCommit = func(b *harness.BatchInfo) {
		if cfg.maxDelayUs > 0 {
			x := uint64(delaySeed) ^ uint64(b.Seq)*0x9e3779b97f4a7c15
			x ^= x >> 29
			d := int(x % uint64(cfg.maxDelayUs+1))
			if x%7 == 0 {
				d *= 10 // occasionally hold a commit long enough for several later allocations to finish first
			}
			if d > 0 {
				time.Sleep(time.Duration(d) * time.Microsecond)
			}
		}
	}
	w.Decide = func(b *harness.BatchInfo) harness.Decision {
		if atomic.LoadInt32(faultOn) == 1 && cfg.faultPct+cfg.uncertainPct > 0 {
			if _, _, _, ok := b.Write(); ok {
				x := uint64(delaySeed)*31 ^ uint64(b.Seq)*0xc2b2ae3d27d4eb4f
				x ^= x >> 31
				if int(x%100) < cfg.faultPct {
					return harness.FailDefinite
				}
				if int(x%100) < cfg.faultPct+cfg.uncertainPct {
					if (x>>8)%2 == 0 {
						return harness.UncertainApplied
					}
					return harness.UncertainNotApplied
				}
			}
		}
		return harness.Pass
	}
	var nodeRef atomic.Value
	w.AfterCommit = func(b *harness.BatchInfo, ret error) {
		raw, rev, val, ok := b.Write()
		if !ok {
			return
		}
		sw := StoreWrite{Raw: string(raw), Rev: rev, Val: val, Applied: b.Applied}
		if b.Ops[0].Kind == "cas" && len(b.Ops[0].Old) >= 8 {
			sw.PrevIdxRev, sw.HasPrev = u64(b.Ops[0].Old[:8]), true
		}
		if ret != nil {
			sw.Ret = ret.Error()
		}
		if node, _ := nodeRef.Load().(*harness.Node); node != nil {
			// monitor 1 (exact): the backend cannot have announced rev yet, so the read revision must be below it
			sw.CommittedAfter = node.Committed()
		}
		cr.mu.Lock()
		if rev < cr.maxDone {
			cr.oooDone++
		} else {
			cr.maxDone = rev
		}
		cr.store = append(cr.store, sw)
		cr.mu.Unlock()
	}
	rm := harness.NewRecMetrics(harness.IsMetricsKind(cfg.kind))
	var bkv storage.KvStorage = w
	if harness.IsMetricsKind(cfg.kind) {
		bkv = harness.WithMetrics(w, rm)
	}
	node := harness.NewNode(harness.NodeOpts{KV: bkv, Metrics: rm, TrackNotify: true, NoIdleYield: cfg.noIdle,
		Config: backend.Config{EnableEtcdCompatibility: true}})
	nodeRef.Store(node)
	cr.n = node
	// initial key states
	for i := 0; i < cfg.keys; i++ {
		k := fmt.Sprintf("%s/k%d", harness.Prefix, i)
		cr.keys = append(cr.keys, k)
		st := cfg.initStates[r.Intn(len(cfg.initStates))]
		switch st {
		case "never":
		case "live":
			cr.seqInit(c, harness.SeqOp{Kind: "create", Key: k, Val: []byte("init-" + k)})
		case "deleted", "compacted":
			cr.seqInit(c, harness.SeqOp{Kind: "create", Key: k, Val: []byte("init-" + k)})
			cr.seqInit(c, harness.SeqOp{Kind: "delete", Key: k})
		}
		if st == "compacted" {
			cr.floor = 1 // marker: compaction below
		}
		c.AddSet("initial_states", st)
	}
	if cr.floor != 0 {
		resp, err := node.B.Compact(harness.Ctx, 0)
		if err != nil {
			c.Inconclusive("set-up compaction failed: " + err.Error())
			return nil
		}
		cr.floor = resp.Header.GetRevision()
	}
	atomic.StoreInt32(faultOn, 1)
	return cr
}

func (cr *concRun) seqInit(c *harness.Case, op harness.SeqOp) {
	_, mis := cr.n.ApplyChecked(cr.init, op)
	if mis != "" {
		c.Inconclusive("set-up write misbehaved: " + mis)
	}
}

func (cr *concRun) close() {
	if cr.stalled {
		return // goroutines are still parked inside the node and the engine
	}
	cr.n.Retire()
	cr.eng.Close()
}

// deadCtx is the context of a client that has already given up.
var deadCtx = func() context.Context {
	ctx, cancel := context.WithCancel(context.Background())
	cancel()
	return ctx
}()

// run executes the concurrent phase and returns when every client call has returned.
func (cr *concRun) run(c *harness.Case) {
	cfg := cr.cfg
	var wg sync.WaitGroup
	var stop int32
	st := harness.NewStall()
	perClient := make([][]*COp, cfg.clients+cfg.readers)
	startGate := make(chan struct{})
	for ci := 0; ci < cfg.clients; ci++ {
		wg.Add(1)
		cseed := c.Rng.Int63() + int64(ci)
		go func(ci int) {
			defer wg.Done()
			r := rand.New(rand.NewSource(cseed))
			last := map[string]uint64{} // last revision this client saw per key
			for k, vs := range cr.init.Keys {
				if len(vs) > 0 && !vs[len(vs)-1].Del && r.Intn(2) == 0 {
					last[k] = vs[len(vs)-1].Rev
				}
			}
			<-startGate
			defer st.Enter()()
			for i := 0; i < cfg.opsPer; i++ {
				key := cr.keys[r.Intn(len(cr.keys))]
				op := &COp{Client: ci, Key: key, Val: fmt.Sprintf("c%d#%d", ci, i)}
				x := r.Intn(100)
				switch {
				case x < 22:
					op.Kind = "create"
				case x < 62:
					op.Kind = "update"
					op.Exp = last[key]
					if y := r.Intn(100); y < cfg.futurePct {
						op.Exp = cr.n.Dealt() + 1000000 + uint64(r.Intn(1000))
					} else if y < cfg.futurePct+15 && op.Exp > 1 {
						op.Exp-- // stale / never issued for this key
					}
				case x < 85:
					op.Kind = "delete"
					if r.Intn(3) > 0 {
						op.Exp = last[key]
						if y := r.Intn(100); y < cfg.futurePct {
							op.Exp = cr.n.Dealt() + 1000000 + uint64(r.Intn(1000))
						}
					}
				default:
					op.Kind = "get"
				}
				op.Call = cr.tick()
				switch op.Kind {
				case "get":
					g, err := cr.n.Get(key, 0)
					if err != nil {
						op.Out.Err = err.Error()
					} else {
						op.Out.Rev = g.Header.GetRevision()
						if g.Kv != nil {
							op.Out.HasKv, op.Out.KvVal, op.Out.KvRev = true, g.Kv.Value, g.Kv.Revision
							last[key] = g.Kv.Revision
						} else {
							delete(last, key)
						}
					}
				default:
					ctx := harness.Ctx
					if cfg.deadCtxPct > 0 && r.Intn(100) < cfg.deadCtxPct {
						ctx = deadCtx
						op.DeadCtx = true
					}
					op.Out = cr.n.DoCtx(ctx, harness.SeqOp{Kind: op.Kind, Key: key, Val: []byte(op.Val), Exp: op.Exp})
					if op.Out.Err == "" {
						if op.Out.Succeeded && op.Kind != "delete" {
							last[key] = op.Out.Rev
						} else if op.Out.Succeeded {
							delete(last, key)
						} else if op.Out.HasKv {
							last[key] = op.Out.KvRev
						}
					}
				}
				op.Ret = cr.tick()
				st.Tick()
				perClient[ci] = append(perClient[ci], op)
			}
		}(ci)
	}
	// list readers: every List(rev=0) is later compared with the snapshot at its header revision
	var rwg sync.WaitGroup
	for ri := 0; ri < cfg.readers; ri++ {
		rwg.Add(1)
		go func(ri int) {
			defer rwg.Done()
			<-startGate
			full := harness.Prefix + "/"
			end := string(backend.PrefixEnd([]byte(full)))
			for atomic.LoadInt32(&stop) == 0 {
				op := &COp{Client: cfg.clients + ri, Kind: "list", Key: full}
				op.Call = cr.tick()
				resp, err := cr.n.List(full, end, 0, 0)
				if err != nil {
					op.Out.Err = err.Error()
				} else {
					op.Out.Rev = resp.Header.GetRevision()
					for _, kv := range resp.Kvs {
						op.Kvs = append(op.Kvs, harness.MKV{Key: string(kv.Key), Val: kv.Value, Rev: kv.Revision})
					}
				}
				op.Ret = cr.tick()
				if len(perClient[cfg.clients+ri]) < 400 {
					perClient[cfg.clients+ri] = append(perClient[cfg.clients+ri], op)
				}
				time.Sleep(time.Duration(50+ri*30) * time.Microsecond)
			}
		}(ri)
	}
	if cfg.compactor {
		rwg.Add(1)
		cseed := c.Rng.Int63()
		go func() {
			defer rwg.Done()
			rr := rand.New(rand.NewSource(cseed))
			<-startGate
			for atomic.LoadInt32(&stop) == 0 {
				cur := cr.n.Committed()
				lag := uint64(rr.Intn(6))
				if cfg.compactAhead && rr.Intn(2) == 0 {
					// at or above the newest revision handed out: writes still on their way to the engine lie below it
					if _, err := cr.n.B.Compact(harness.Ctx, cr.n.Dealt()+uint64(rr.Intn(4))); err == nil {
						atomic.AddInt64(&cr.compactions, 1)
					}
				} else if cur > cr.n.Start+lag {
					if _, err := cr.n.B.Compact(harness.Ctx, cur-lag); err == nil {
						atomic.AddInt64(&cr.compactions, 1)
					}
				}
				time.Sleep(time.Duration(100+rr.Intn(400)) * time.Microsecond)
			}
		}()
	}
	// watchers: open a watch from the revision just read (catch-up from the event cache while writes are being
	// sequenced), take what comes for a moment, close it, again
	var wwg sync.WaitGroup
	var nWatches int64
	for wi := 0; wi < cfg.watchers; wi++ {
		wwg.Add(1)
		go func(wi int) {
			defer wwg.Done()
			<-startGate
			for atomic.LoadInt32(&stop) == 0 {
				ctx, cancel := context.WithCancel(context.Background())
				ch, err := cr.n.B.Watch(ctx, harness.Prefix+"/", cr.n.Committed())
				if err == nil {
					atomic.AddInt64(&nWatches, 1)
					tm := time.After(time.Duration(300+200*wi) * time.Microsecond)
				take:
					for {
						select {
						case _, ok := <-ch:
							if !ok {
								break take
							}
						case <-tm:
							break take
						}
					}
				}
				cancel()
				time.Sleep(time.Duration(100+50*wi) * time.Microsecond)
			}
		}(wi)
	}
	close(startGate)
	done := make(chan struct{})
	go func() { wg.Wait(); close(done) }()
	if stalled, dump := st.Watch(done); stalled {
		// no request returns any more and no client is waiting for a CPU: the node is wedged. The blocked goroutines
		// (and the engine under them) are abandoned.
		atomic.StoreInt32(&stop, 1)
		cr.stalled = true
		w := map[string]interface{}{"engine": cfg.kind, "blocked_goroutines": harness.TrimDump(dump, 12, "kubebrain/pkg/")}
		c.Violatef(c.Prop+" every-client-blocked no-request-returns", w, "for %d looks %v apart no client request returned, while every client goroutine was parked at the same synchronisation point (none running, runnable or in a system call): requests after a certain one never complete", 5, 3*time.Second)
		return
	}
	atomic.StoreInt32(&stop, 1)
	if cfg.watchers > 0 {
		wdone := make(chan struct{})
		go func() { wwg.Wait(); close(wdone) }()
		select {
		case <-wdone:
		case <-time.After(45 * time.Second):
			cr.stalled = true
			buf := make([]byte, 1<<20)
			w := map[string]interface{}{"engine": cfg.kind, "blocked_goroutines": harness.TrimDump(string(buf[:runtime.Stack(buf, true)]), 12, "kubebrain/pkg/")}
			c.Violatef(c.Prop+" watch-request-never-returns during-writes", w, "every writing client has finished; a client that kept opening watches from the current revision and closing them has been inside one request for 45 s on an otherwise idle node (%d watches had been opened)", atomic.LoadInt64(&nWatches))
			return
		}
		c.Stat("watches_opened_from_the_current_revision_during_writes", atomic.LoadInt64(&nWatches))
	}
	rwg.Wait()
	for _, l := range perClient {
		cr.ops = append(cr.ops, l...)
	}
	sort.Slice(cr.ops, func(i, j int) bool { return cr.ops[i].Call < cr.ops[j].Call })
}

func (cr *concRun) witness(key string) interface{} {
	var h []string
	for _, op := range cr.ops {
		if (key == "" || op.Key == key) && op.Kind != "list" {
			h = append(h, op.String())
		}
	}
	if len(h) > 300 {
		h = h[:300]
	}
	var iv []string
	for k, vs := range cr.init.Keys {
		if key == "" || k == key {
			for _, v := range vs {
				iv = append(iv, fmt.Sprintf("%s: rev=%d del=%v", k, v.Rev, v.Del))
			}
		}
	}
	sort.Strings(iv)
	return map[string]interface{}{"engine": cr.cfg.kind, "key": key, "initial_versions": iv, "history": h}
}

// successes returns, per key, the successful writes sorted by response revision.
func (cr *concRun) successes() map[string][]*COp {
	m := map[string][]*COp{}
	for _, op := range cr.ops {
		if (op.Kind == "create" || op.Kind == "update" || op.Kind == "delete") && op.Out.Err == "" && op.Out.Succeeded {
			m[op.Key] = append(m[op.Key], op)
		}
	}
	for _, l := range m {
		sort.Slice(l, func(i, j int) bool { return l[i].Out.Rev < l[j].Out.Rev })
	}
	return m
}

// landedModel = initial versions + every write batch that landed in the engine (storage-boundary log).
// With unknown outcomes in play this, not the acknowledgements, is the ground truth of what reads may see.
func (cr *concRun) landedModel() *harness.Model {
	m := cr.init.Clone()
	cr.mu.Lock()
	ws := append([]StoreWrite(nil), cr.store...)
	cr.mu.Unlock()
	sort.Slice(ws, func(i, j int) bool { return ws[i].Rev < ws[j].Rev })
	for _, w := range ws {
		if !w.Applied || w.Rev <= cr.n.Start {
			continue
		}
		if lv := m.Latest(w.Raw); lv != nil && lv.Rev >= w.Rev {
			continue // set-up writes are already in init
		}
		if bytes.Equal(w.Val, []byte("tombstone")) {
			m.Del(w.Raw, w.Rev)
		} else {
			m.Put(w.Raw, w.Rev, w.Val)
		}
	}
	return m
}

// finalModel = initial versions + acknowledged successes.
func (cr *concRun) finalModel() *harness.Model {
	m := cr.init.Clone()
	for k, l := range cr.successes() {
		for _, op := range l {
			if op.Kind == "delete" {
				m.Del(k, op.Out.Rev)
			} else {
				m.Put(k, op.Out.Rev, []byte(op.Val))
			}
		}
	}
	return m
}

// ---------------------------------------------------------------- C01 oracle

func (cr *concRun) checkC01(c *harness.Case) {
	if cr.stalled {
		return
	}
	succ := cr.successes()
	condFailed := 0
	overlap := false
	for _, key := range cr.keys {
		l := succ[key]
		// 1. chain
		var prev *harness.Ver
		if lv := cr.init.Latest(key); lv != nil {
			prev = lv
		}
		usedExp := map[uint64]*COp{}
		for _, op := range l {
			if prev != nil && op.Out.Rev <= prev.Rev {
				c.Violatef("C01 chain revision-not-increasing", cr.witness(key), "key %q: success %s does not have a larger revision than its predecessor (rev %d)", key, op, prev.Rev)
			}
			switch {
			case op.Kind == "create" || (op.Kind == "update" && op.Exp == 0):
				if prev != nil && !prev.Del {
					c.Violatef("C01 chain create-over-live-key", cr.witness(key), "key %q: %s succeeded although the key was live at revision %d (lost update)", key, op, prev.Rev)
				}
			case op.Kind == "update" || (op.Kind == "delete" && op.Exp != 0):
				if prev == nil || prev.Del || prev.Rev != op.Exp {
					c.Violatef("C01 chain success-did-not-name-predecessor", cr.witness(key), "key %q: %s succeeded but its predecessor in revision order is %s (lost update)", key, op, verS2(prev))
				}
				if o2 := usedExp[op.Exp]; o2 != nil {
					c.Violatef("C01 two-successes-on-one-expectation", cr.witness(key), "key %q: both %s and %s succeeded conditioned on revision %d", key, o2, op, op.Exp)
				}
				usedExp[op.Exp] = op
			case op.Kind == "delete":
				if prev == nil || prev.Del {
					c.Violatef("C01 chain delete-of-absent-key-succeeded", cr.witness(key), "key %q: %s succeeded but the key was absent/deleted", key, op)
				} else if !op.Out.HasKv || op.Out.KvRev != prev.Rev || !bytes.Equal(op.Out.KvVal, prev.Val) {
					c.Violatef("C01 delete-returned-wrong-previous", cr.witness(key), "key %q: %s returned a previous kv that is not its predecessor %s", key, op, verS2(prev))
				}
			}
			if op.Kind == "delete" {
				prev = &harness.Ver{Rev: op.Out.Rev, Del: true}
			} else {
				prev = &harness.Ver{Rev: op.Out.Rev, Val: []byte(op.Val)}
			}
		}
	}
	// 1b. a failed compare never names the revision it compared with. The failure branch re-reads the key after the
	// compare was decided; revisions only grow (C02), so a re-read that still shows the expected revision proves that
	// the key equalled the expectation from before the request until after its compare had been refused.
	base := strings.TrimSuffix(strings.Split(cr.cfg.kind, "/")[0], "+m")
	for _, op := range cr.ops {
		if (op.Kind == "update" || op.Kind == "delete") && op.Exp != 0 && op.Out.Err == "" && !op.Out.Succeeded && op.Out.HasKv && op.Out.KvRev == op.Exp {
			c.Violatef("C01 failed-compare-answered-with-the-compared-revision engine="+base, cr.witness(op.Key), "key %q: %s was answered \"condition failed\" together with the current key-value, whose revision %d is the very revision the request expected: the key did not differ from the expectation when the compare was refused", op.Key, op, op.Exp)
			c.Stat("failed_compares_answered_with_the_compared_revision", 1)
		}
	}
	// 2. nothing else landed: engine contents == initial + successes (records at/above the compaction floor)
	fm := cr.finalModel()
	dump, err := harness.Dump(cr.eng.KV, coderC.EncodeObjectKey([]byte(harness.Prefix+"/"), 0), coderC.EncodeObjectKey(backend.PrefixEnd([]byte(harness.Prefix+"/")), 0))
	if err != nil {
		c.Inconclusive("dump failed: " + err.Error())
		return
	}
	type rec struct {
		val []byte
	}
	stored := map[string]map[uint64][]byte{}
	index := map[string][]byte{}
	for _, kv := range dump {
		raw, rev, derr := coderC.Decode(kv.Key)
		if derr != nil {
			continue
		}
		if rev == 0 {
			index[string(raw)] = kv.Val
			continue
		}
		if stored[string(raw)] == nil {
			stored[string(raw)] = map[uint64][]byte{}
		}
		stored[string(raw)][rev] = kv.Val
	}
	for _, key := range cr.keys {
		want := map[uint64][]byte{}
		for _, v := range fm.Keys[key] {
			if v.Del {
				want[v.Rev] = []byte("tombstone")
			} else {
				want[v.Rev] = v.Val
			}
		}
		for rev, val := range stored[key] {
			w, ok := want[rev]
			if !ok {
				c.Violatef("C01 unacknowledged-write-left-a-record", cr.witness(key), "key %q: engine holds version rev=%d val=%q which no successful response accounts for (a failed or errored write changed the key)", key, rev, trimB(val))
			} else if !bytes.Equal(w, val) {
				c.Violatef("C01 stored-version-differs", cr.witness(key), "key %q: engine version rev=%d holds %q, acknowledged write wrote %q", key, rev, trimB(val), trimB(w))
			}
		}
		for rev := range want {
			if _, ok := stored[key][rev]; !ok && rev > cr.floor {
				// versions at/below the set-up compaction revision may legitimately have been collected
				c.Violatef("C01 acknowledged-write-missing-from-engine", cr.witness(key), "key %q: acknowledged write at revision %d has no version record in the engine", key, rev)
			}
		}
		lv := fm.Latest(key)
		iv, has := index[key]
		switch {
		case lv == nil:
			if has {
				c.Violatef("C01 index-without-acknowledged-write", cr.witness(key), "key %q: engine holds an index record %x but no write was acknowledged", key, iv)
			}
		case !has:
			if !(lv.Del && lv.Rev <= cr.floor) {
				c.Violatef("C01 index-missing", cr.witness(key), "key %q: no index record; last acknowledged write is %s", key, verS2(lv))
			}
		default:
			irev, itomb, perr := coder.ParseRevision(iv)
			if perr != nil || irev != lv.Rev || itomb != lv.Del {
				c.Violatef("C01 index-differs-from-last-success", cr.witness(key), "key %q: index record says rev=%d deleted=%v; last acknowledged write is %s", key, irev, itomb, verS2(lv))
			}
		}
	}
	// 3. no unjustified failure
	for _, op := range cr.ops {
		if op.Out.Err != "" || op.Out.Succeeded || (op.Kind != "create" && op.Kind != "update" && op.Kind != "delete") {
			continue
		}
		condFailed++
		// versions of the key in revision order with the ops that wrote them
		chain := cr.chainWithOps(op.Key, succ)
		matchIdx := -1
		for i, e := range chain {
			switch {
			case op.Kind == "create" || (op.Kind == "update" && op.Exp == 0):
				if e.ver == nil || e.ver.Del {
					if cr.certainlyCurrent(chain, i, op) {
						matchIdx = i
					}
				}
			case op.Kind == "update" || op.Exp != 0:
				if e.ver != nil && !e.ver.Del && e.ver.Rev == op.Exp {
					if cr.certainlyCurrent(chain, i, op) {
						matchIdx = i
					}
				}
			default: // unguarded delete fails only if the key is absent
				if e.ver != nil && !e.ver.Del {
					if cr.certainlyCurrent(chain, i, op) {
						matchIdx = i
					}
				}
			}
		}
		if matchIdx >= 0 {
			c.Violatef("C01 unjustified-condition-failure kind="+op.Kind, cr.witness(op.Key), "%s reported a failed condition although the key matched the expectation (state %s) for the whole time the request was in flight", op, verS2(chain[matchIdx].ver))
		}
	}
	// 4. final read = last success
	for _, key := range cr.keys {
		g, err := cr.n.Get(key, 0)
		if err != nil {
			c.Violatef("C01 final-get-error", cr.witness(key), "final Get(%q) error %v", key, err)
			continue
		}
		lv := fm.Live(key)
		if (lv == nil) != (g.Kv == nil) || (lv != nil && (!bytes.Equal(lv.Val, g.Kv.Value) || lv.Rev != g.Kv.Revision)) {
			got := "absent"
			if g.Kv != nil {
				got = fmt.Sprintf("(%q,%d)", g.Kv.Value, g.Kv.Revision)
			}
			c.Violatef("C01 final-read-differs-from-last-success", cr.witness(key), "final Get(%q) = %s; last acknowledged write is %s", key, got, verS2(fm.Latest(key)))
		}
	}
	// overlap measurement: two writers in flight on one key at once
	byKey := map[string][]*COp{}
	for _, op := range cr.ops {
		if op.Kind == "create" || op.Kind == "update" || op.Kind == "delete" {
			byKey[op.Key] = append(byKey[op.Key], op)
		}
	}
	nOverlap := int64(0)
	for _, l := range byKey {
		maxRet := int64(-1)
		for _, op := range l { // sorted by call
			if op.Call < maxRet {
				nOverlap++
				overlap = true
			}
			if op.Ret > maxRet {
				maxRet = op.Ret
			}
		}
	}
	c.Stat("overlapping_writes_on_one_key", nOverlap)
	c.Stat("condition_failed_responses", int64(condFailed))
	c.R.Nontrivial = overlap && condFailed > 0
}

type chainEnt struct {
	ver *harness.Ver // state of the key after this entry (nil = never existed)
	op  *COp         // op that produced it (nil for initial versions)
}

// chainWithOps returns the sequence of states the key went through: [never, init versions..., successes...].
func (cr *concRun) chainWithOps(key string, succ map[string][]*COp) []chainEnt {
	out := []chainEnt{{ver: nil}}
	for i := range cr.init.Keys[key] {
		v := cr.init.Keys[key][i]
		out = append(out, chainEnt{ver: &v})
	}
	for _, op := range succ[key] {
		if op.Kind == "delete" {
			out = append(out, chainEnt{ver: &harness.Ver{Rev: op.Out.Rev, Del: true}, op: op})
		} else {
			out = append(out, chainEnt{ver: &harness.Ver{Rev: op.Out.Rev, Val: []byte(op.Val)}, op: op})
		}
	}
	return out
}

// certainlyCurrent: state chain[i] was certainly the key's state for the whole of op's flight:
// its writer returned before op was called and its successor (if any) was called after op returned.
func (cr *concRun) certainlyCurrent(chain []chainEnt, i int, op *COp) bool {
	if e := chain[i]; e.op != nil && e.op.Ret >= op.Call {
		return false
	}
	if i+1 < len(chain) {
		nx := chain[i+1]
		if nx.op == nil || nx.op.Call <= op.Ret {
			return false
		}
	}
	// errored writes may have been in flight too; an errored write must not have landed (checked by rule 2), so it cannot excuse a failure
	return true
}

func verS2(v *harness.Ver) string {
	if v == nil {
		return "never-existed"
	}
	if v.Del {
		return fmt.Sprintf("deleted@%d", v.Rev)
	}
	return fmt.Sprintf("(%q,%d)", trimB(v.Val), v.Rev)
}

// ---------------------------------------------------------------- C02 oracle

// ownRev returns the revision stamped on a write attempt when the response determines it.
func ownRev(op *COp) (uint64, bool) {
	if op.Out.Err != "" {
		return 0, false
	}
	switch op.Kind {
	case "create":
		return op.Out.Rev, true
	case "update", "delete":
		if op.Out.Succeeded {
			return op.Out.Rev, true
		}
		if !op.Out.HasKv {
			return op.Out.Rev, true
		}
		if op.Out.Rev > op.Out.KvRev {
			return op.Out.Rev, true
		}
	}
	return 0, false
}

func (cr *concRun) checkC02(c *harness.Case) {
	if cr.stalled {
		return
	}
	// (a) uniqueness over response-determined revisions and storage-observed revisions
	seen := map[uint64]string{}
	type ro struct {
		rev uint64
		op  *COp
	}
	var stamped []ro
	for _, op := range cr.ops {
		if rev, ok := ownRev(op); ok {
			if prev, dup := seen[rev]; dup {
				c.Violatef("C02 revision-issued-twice", cr.witness(""), "revision %d was stamped on two attempts: %s and %s", rev, prev, op)
			}
			seen[rev] = op.String()
			stamped = append(stamped, ro{rev, op})
			if rev <= cr.n.Start {
				c.Violatef("C02 revision-not-above-start", cr.witness(""), "%s was stamped %d, not above the node's initial revision %d", op, rev, cr.n.Start)
			}
		}
	}
	// one attempt may reach storage more than once with its revision (create retries as an update when
	// the index is a deletion mark), so batches are the same attempt unless they differ in key or both landed
	type sb struct {
		raw     string
		applied bool
	}
	storeSeen := map[uint64]sb{}
	for _, sw := range cr.store {
		if sw.Rev <= cr.n.Start {
			continue
		}
		if prev, dup := storeSeen[sw.Rev]; dup {
			if prev.raw != sw.Raw || (prev.applied && sw.Applied) {
				c.Violatef("C02 revision-issued-twice", cr.witness(""), "two write batches reached storage with revision %d: key %q (landed=%v) and key %q (landed=%v)", sw.Rev, prev.raw, prev.applied, sw.Raw, sw.Applied)
			}
			sw.Applied = sw.Applied || prev.applied
		}
		storeSeen[sw.Rev] = sb{sw.Raw, sw.Applied}
	}
	for _, st := range stamped {
		if b, ok := storeSeen[st.rev]; ok && b.raw != st.op.Key {
			c.Violatef("C02 revision-issued-twice", cr.witness(""), "revision %d was stamped on %s and also on a storage batch for key %q", st.rev, st.op, b.raw)
		}
	}
	c.Stat("storage_batches_observed", int64(len(cr.store)))
	c.Stat("stamped_attempts", int64(len(stamped)))
	// (b) real-time order: A returned before B was called => rev(A) < rev(B)
	sort.Slice(stamped, func(i, j int) bool { return stamped[i].op.Call < stamped[j].op.Call })
	byRet := append([]ro(nil), stamped...)
	sort.Slice(byRet, func(i, j int) bool { return byRet[i].op.Ret < byRet[j].op.Ret })
	var maxRev uint64
	var maxOp *COp
	j := 0
	pairs := int64(0)
	for _, b := range stamped {
		for j < len(byRet) && byRet[j].op.Ret < b.op.Call {
			if byRet[j].rev > maxRev {
				maxRev, maxOp = byRet[j].rev, byRet[j].op
			}
			j++
		}
		pairs += int64(j)
		if maxOp != nil && maxRev >= b.rev {
			c.Violatef("C02 real-time-order-violated", cr.witness(""), "%s completed before %s began, yet its revision %d is not smaller than %d", maxOp, b.op, maxRev, b.rev)
			break
		}
	}
	c.Stat("realtime_ordered_pairs", pairs)
	// (c) per key: mod revisions strictly increase along the success chain (also covered by C01 chain)
	for key, l := range cr.successes() {
		var p uint64
		if lv := cr.init.Latest(key); lv != nil {
			p = lv.Rev
		}
		for _, op := range l {
			if op.Out.Rev <= p {
				c.Violatef("C02 key-history-not-increasing", cr.witness(key), "key %q: modification revision %d follows %d", key, op.Out.Rev, p)
			}
			p = op.Out.Rev
		}
	}
	// (c') at the storage boundary: a write that landed by replacing an index record carries a larger revision than the one it replaced
	for _, sw := range cr.store {
		if sw.Applied && sw.HasPrev && sw.Rev <= sw.PrevIdxRev {
			c.Violatef("C02 key-history-not-increasing at=storage-boundary", cr.witness(sw.Raw), "key %q: a write with revision %d landed on top of the key's revision %d (modification revisions along the key's history do not increase)", sw.Raw, sw.Rev, sw.PrevIdxRev)
		}
	}
	// (d) header >= data
	for _, op := range cr.ops {
		if op.Out.Err != "" {
			continue
		}
		if op.Out.HasKv && op.Out.Rev < op.Out.KvRev {
			c.Violatef("C02 header-below-data kind="+op.Kind, cr.witness(op.Key), "%s: header revision %d is smaller than the revision %d of the kv it carries", op, op.Out.Rev, op.Out.KvRev)
		}
		for _, kv := range op.Kvs {
			if op.Out.Rev < kv.Rev {
				c.Violatef("C02 header-below-data kind=list", nil, "List header %d < kv %q revision %d", op.Out.Rev, kv.Key, kv.Rev)
			}
		}
	}
}

// ---------------------------------------------------------------- C04 oracle

func (cr *concRun) checkC04(c *harness.Case) {
	if cr.stalled {
		return
	}
	// monitor 1: reads never overtake a write whose storage transaction has not finished
	for _, sw := range cr.store {
		if sw.CommittedAfter >= sw.Rev && sw.Rev > cr.n.Start {
			c.Violatef("C04 read-revision-overtook-unfinished-write", cr.witness(sw.Raw), "the read revision was %d when the engine had just answered the write batch of revision %d (key %q) and the backend had not yet learnt the outcome", sw.CommittedAfter, sw.Rev, sw.Raw)
		}
	}
	c.Stat("commits_observed", int64(len(cr.store)))
	c.Stat("commits_finished_out_of_allocation_order", cr.oooDone)
	// with unknown outcomes injected, quiescence also needs the retry queue to drain (bounded wait; expiry is decided by conservation below)
	if cr.cfg.uncertainPct > 0 {
		deadline := time.Now().Add(20 * time.Second)
		for time.Now().Before(deadline) {
			q1 := cr.n.RetryQueueLen()
			cm, dl := cr.n.Committed(), cr.n.Dealt()
			if q1 == 0 && cm == dl && cr.n.RetryQueueLen() == 0 {
				break
			}
			time.Sleep(2 * time.Millisecond)
		}
		c.Stat("unknown_outcomes_injected_cases", 1)
	}
	// monitor 3: conservation at quiescence
	missing, dup, dealt, dropped := cr.n.Conservation()
	c.Stat("revisions_dealt", int64(dealt-cr.n.Start))
	if len(missing) > 0 {
		// name the request that consumed the first missing revision if a response identifies it
		culprit := ""
		for _, op := range cr.ops {
			if cr.cfg.uncertainPct == 0 && op.Out.Err != "" && (op.Kind == "update" || op.Kind == "delete") && op.Exp > dealt {
				culprit = op.String()
				break
			}
		}
		sig := "C04 revision-never-resolved"
		if cr.cfg.uncertainPct > 0 {
			sig += " workload=unknown-outcomes-and-storage-errors"
		}
		if culprit != "" {
			sig += " request=future-expected-revision"
		}
		c.Violatef(sig, cr.witness(""), "revisions %v (of %d dealt) were handed out but never resolved: the read revision can never pass %d, so no later write becomes readable or watchable (notify calls dropped for revision 0: %d; first offending request: %s)", firstN(missing, 5), dealt-cr.n.Start, missing[0]-1, dropped, culprit)
	}
	if len(dup) > 0 {
		c.Violatef("C04 revision-resolved-twice", cr.witness(""), "revisions %v were deposited more than once or outside (start, dealt]", firstN(dup, 5))
	}
	if len(missing) == 0 {
		// all dealt revisions deposited: the read revision must reach dealt. Decided in the sequencer's own steps: 5000
		// passes in which it found the next slot empty although that slot's deposit was made before => the deposit was
		// lost; only a sequencer that does not run at all ends in the watchdog (inconclusive)
		reached, skipped := cr.n.CommittedOrSkipped(dealt, 5000, 60*time.Second)
		if skipped {
			c.Violatef("C04 deposited-revision-never-consumed", cr.witness(""), "every revision up to %d was reported to the sequencer (deposit observed at the notify hook), yet the sequencer polled the slot of revision %d five thousand times and found it empty: the read revision stays at %d for good, no later write becomes readable or watchable", dealt, cr.n.Committed()+1, cr.n.Committed())
			return // nothing after this point can be read any more
		} else if !reached {
			c.Inconclusive(fmt.Sprintf("watchdog: every dealt revision was deposited but the read revision stayed at %d < %d", cr.n.Committed(), dealt))
		}
	}
	// snapshot stability: every concurrent List(rev=0) equals the reference snapshot at its header revision
	fm := cr.finalModel()
	if cr.cfg.uncertainPct > 0 {
		fm = cr.landedModel()
	}
	full := harness.Prefix + "/"
	end := string(backend.PrefixEnd([]byte(full)))
	lists := int64(0)
	for _, op := range cr.ops {
		if op.Kind != "list" || op.Out.Err != "" {
			continue
		}
		lists++
		want := fm.Snapshot(full, end, op.Out.Rev)
		ok := len(want) == len(op.Kvs)
		if ok {
			for i := range want {
				if want[i].Key != op.Kvs[i].Key || want[i].Rev != op.Kvs[i].Rev || !bytes.Equal(want[i].Val, op.Kvs[i].Val) {
					ok = false
				}
			}
		}
		if !ok {
			c.Violatef("C04 list-not-a-snapshot-at-its-header-revision", cr.witness(""), "concurrent List(rev=0) answered header=%d with %s; acknowledged writes with revision <= %d give %s (a read overtook an unfinished write, or a write surfaced below the read revision)", op.Out.Rev, mkvStr(op.Kvs), op.Out.Rev, mkvStr(want))
			break
		}
	}
	c.Stat("concurrent_lists_checked", lists)
	c.Stat("compactions_next_to_the_clients", atomic.LoadInt64(&cr.compactions))
	// monitor 4: a final create must become listable
	if len(missing) == 0 {
		atomic.StoreInt32(&cr.faultOn, 0)
		probe := harness.Prefix + "/zz-probe"
		resp, err := cr.n.Create(probe, []byte("probe"))
		if err != nil || !resp.Succeeded {
			c.Violatef("C04 probe-create-failed", nil, "probe create failed: %v %v", resp, err)
		} else if !cr.n.WaitCommitted(resp.Header.GetRevision(), 60*time.Second) {
			c.Inconclusive("watchdog waiting for the probe write to become readable")
		} else {
			l, err := cr.n.List(probe, string(backend.PrefixEnd([]byte(probe))), 0, 0)
			if err != nil || len(l.Kvs) != 1 {
				c.Violatef("C04 acknowledged-write-not-listable", nil, "probe key acknowledged at %d is not in List(rev=0): %v %v", resp.Header.GetRevision(), l, err)
			}
		}
	}
}

func firstN(a []uint64, n int) []uint64 {
	if len(a) > n {
		return a[:n]
	}
	return a
}

func u64(b []byte) uint64 { return binary.BigEndian.Uint64(b) }

// ---------------------------------------------------------------- C01: linearizability (porcupine)

type regState struct {
	Rev  uint64
	Live bool
}

type regIn struct {
	Kind string
	Exp  uint64
}

type regOut struct {
	Err       bool
	Succeeded bool
	Rev       uint64 // response header revision (the write's own revision on success)
	HasKv     bool   // get: key present
	KvRev     uint64
}

// checkC01Linearizable checks every key's sub-history against a sequential register of (revision, live):
// an independent formulation of the chain rule and of "a condition fails only if the key differed at some
// moment while the request was in flight" (= a linearization point exists).
func (cr *concRun) checkC01Linearizable(c *harness.Case) {
	if cr.stalled {
		return
	}
	model := porcupine.Model{
		Init: func() interface{} { return regState{} },
		Step: func(state, input, output interface{}) (bool, interface{}) {
			st := state.(regState)
			in := input.(regIn)
			out := output.(regOut)
			if out.Err {
				return true, st // an errored request has no effect (the engine dump check verifies that nothing landed)
			}
			switch {
			case in.Kind == "get":
				if out.HasKv {
					return st.Live && st.Rev == out.KvRev, st
				}
				return !st.Live, st
			case in.Kind == "create" || (in.Kind == "update" && in.Exp == 0):
				if out.Succeeded {
					return !st.Live && out.Rev > st.Rev, regState{out.Rev, true}
				}
				return st.Live, st
			case in.Kind == "update":
				if out.Succeeded {
					return st.Live && st.Rev == in.Exp && out.Rev > st.Rev, regState{out.Rev, true}
				}
				return !(st.Live && st.Rev == in.Exp), st
			default: // delete
				if out.Succeeded {
					ok := st.Live && (in.Exp == 0 || st.Rev == in.Exp) && out.Rev > st.Rev
					return ok, regState{out.Rev, false}
				}
				if in.Exp == 0 {
					// an unguarded delete is "delete the version I read": it fails when the key is absent, or - answering
					// with the current key-value - when it lost a race against another write of that key
					if out.HasKv {
						return st.Live && st.Rev == out.KvRev, st
					}
					return !st.Live, st
				}
				return !(st.Live && st.Rev == in.Exp), st
			}
		},
		DescribeOperation: func(input, output interface{}) string { return fmt.Sprintf("%+v -> %+v", input, output) },
	}
	for _, key := range cr.keys {
		init := regState{}
		if lv := cr.init.Latest(key); lv != nil {
			init = regState{lv.Rev, !lv.Del}
		}
		model.Init = func() interface{} { return init }
		var ops []porcupine.Operation
		for _, op := range cr.ops {
			if op.Key != key || op.Kind == "list" {
				continue
			}
			out := regOut{Err: op.Out.Err != "", Succeeded: op.Out.Succeeded, Rev: op.Out.Rev, HasKv: op.Out.HasKv, KvRev: op.Out.KvRev}
			ops = append(ops, porcupine.Operation{ClientId: op.Client, Input: regIn{op.Kind, op.Exp}, Call: op.Call, Output: out, Return: op.Ret})
		}
		if len(ops) == 0 || len(ops) > 400 {
			continue
		}
		res, info := porcupine.CheckOperationsVerbose(model, ops, 20*time.Second)
		switch res {
		case porcupine.Illegal:
			// the longest partial linearization shows where the search got stuck: the unplaced operations with the
			// earliest calls are the ones no sequential order can accommodate
			longest := 0
			placed := map[int]bool{}
			for _, part := range info.PartialLinearizations() {
				for _, lin := range part {
					if len(lin) > longest {
						longest = len(lin)
						placed = map[int]bool{}
						for _, id := range lin {
							placed[id] = true
						}
					}
				}
			}
			var stuck []string
			for i, op := range ops {
				if !placed[i] && len(stuck) < 4 {
					stuck = append(stuck, fmt.Sprintf("c%d [%d..%d] %+v -> %+v", op.ClientId, op.Call, op.Return, op.Input, op.Output))
				}
			}
			c.Violatef("C01 key-history-not-linearizable engine="+strings.TrimSuffix(strings.Split(cr.cfg.kind, "/")[0], "+m"), cr.witness(key), "the recorded history of key %q (%d operations, initial state %+v) cannot be explained by any sequential order of conditional writes consistent with real time; longest linearizable part has %d operations, first operations that cannot be placed: %v", key, len(ops), init, longest, stuck)
		case porcupine.Unknown:
			c.Stat("porcupine_timeouts", 1)
		default:
			c.Stat("keys_checked_linearizable", 1)
		}
	}
}
