package props

import (
	"bytes"
	"encoding/binary"
	"errors"
	"fmt"
	"sort"
	"sync/atomic"

	proto "github.com/kubewharf/kubebrain-client/api/v2rpc"

	"github.com/kubewharf/kubebrain/pkg/backend"
	"github.com/kubewharf/kubebrain/pkg/server/brain"

	"verif/internal/harness"
)

// C08 — the compaction floor only rises, and range reads below it are refused.

var c08Engines = []string{"memkv", "tikv", "badger", "memkv+m"}

func init() {
	Registry["C08"] = &Prop{
		Plan: func(tier string) Plan {
			return Plan{Level: "exploration", NCases: pick(tier, 200, 30000), Batch: 4, CaseTimeout: 120,
				Rule: "one case = a PRNG sequence of 6-20 compaction requests (increasing, repeated, decreasing, 0, above current) interleaved with writes on one engine (every 8th case over 650-950 additional keys, several 300-kv stream batches); after each accepted compaction the monitor raises floor=max(floor, effective revision from the response header), reads the stored compaction record, and issues List / ListByStream at revisions around every past floor and Count at latest, on the compacting node and on a second node over the same store (which adopts the first node's read revision as a follower does). " +
					"Every third sequential case ends with reads below the floor while the compaction record itself cannot be read (injected error on that one key): they must fail, not be served. Every 8th case is instead two OVERLAPPING requests: one request (naming the lower or the higher revision) is held at its 1st-3rd read of / write to the compaction record (hook in the storage wrapper), the other runs to completion, then the first continues; requests go to the backend or through the native server's Compact handler; the record must not end below the highest accepted effective revision and reads below it must be refused. " +
					"non-trivial = sequence containing >=1 request naming an older revision than an earlier accepted one and >=1 read refused below the floor; distinct by (engine, request vector)",
				Assumptions: []string{"only compactions that returned without error raise the monitor's floor"},
				MinConcl:    pick(tier, 150, 25000)}
		},
		Name: func(c *harness.Case) string {
			if c.Index%8 == 3 {
				return "overlapping-compactions"
			}
			return "compact-seq-" + c08Engines[c.Index%len(c08Engines)]
		},
		Run: func(c *harness.Case) {
			if c.Index%8 == 3 {
				runC08Overlap(c)
				return
			}
			runC08(c)
		},
	}
}

func streamAll(n *harness.Node, start, end []byte, rev uint64) (batches []*proto.StreamRangeResponse, err error) {
	ch, err := n.B.ListByStream(harness.Ctx, start, end, rev)
	if err != nil {
		return nil, err
	}
	for m := range ch {
		batches = append(batches, m)
	}
	return batches, nil
}

func runC08(c *harness.Case) {
	r := c.Rng
	kind := c08Engines[c.Index%len(c08Engines)]
	var n *harness.Node
	var eng *harness.Engine
	var fw *harness.Wrap // every third case: a storage wrapper in the path, for the unreadable-record probe at the end
	if c.Index%3 == 2 && !harness.IsMetricsKind(kind) {
		var err error
		if eng, err = harness.NewEngine(kind); err != nil {
			c.Inconclusive("engine: " + err.Error())
			return
		}
		fw = harness.NewWrap(eng.KV)
		n = harness.NewNode(harness.NodeOpts{KV: fw, Config: backend.Config{EnableEtcdCompatibility: true}})
	} else {
		var ok bool
		if n, eng, ok = newSeqNode(c, kind, backend.Config{EnableEtcdCompatibility: true}); !ok {
			return
		}
	}
	defer eng.Close()
	defer n.Retire()
	// a second node over the same store (a follower serves reads too): it must refuse what the compacting node refuses
	var fkv = n.KV
	f := harness.NewNode(harness.NodeOpts{KV: fkv, Config: backend.Config{EnableEtcdCompatibility: true}})
	defer f.Retire()
	m := harness.NewModel()
	var hist []string
	wit := func() interface{} { return map[string]interface{}{"engine": kind, "history": hist} }
	keys := []string{"/a", "/b", "/c/d", "/e"}
	write := func() {
		k := harness.Prefix + keys[r.Intn(len(keys))]
		var op harness.SeqOp
		live := m.Live(k)
		switch {
		case live == nil:
			op = harness.SeqOp{Kind: "create", Key: k, Val: []byte(fmt.Sprintf("v%d", len(hist)))}
		case r.Intn(4) == 0:
			op = harness.SeqOp{Kind: "delete", Key: k, Exp: live.Rev}
		default:
			op = harness.SeqOp{Kind: "update", Key: k, Val: []byte(fmt.Sprintf("v%d", len(hist))), Exp: live.Rev}
		}
		out, mis := n.ApplyChecked(m, op)
		hist = append(hist, op.String()+" -> "+out.String())
		if mis != "" {
			c.Inconclusive("write misbehaved during set-up: " + mis)
		}
	}
	for i := 0; i < 5+r.Intn(10); i++ {
		write()
	}
	// every 8th case holds 650-950 more keys, so that a streamed range spans several stream batches (300 kvs each):
	// a refusal that comes only after the scan would be preceded by data
	if c.Index%8 == 5 {
		nb := 650 + r.Intn(300)
		for i := 0; i < nb; i++ {
			op := harness.SeqOp{Kind: "create", Key: fmt.Sprintf("%s/bulk/%04d", harness.Prefix, i), Val: []byte("b")}
			if _, mis := n.ApplyChecked(m, op); mis != "" {
				c.Inconclusive("write misbehaved during set-up: " + mis)
				return
			}
		}
		hist = append(hist, fmt.Sprintf("create %s/bulk/0000 .. %04d (value b)", harness.Prefix, nb-1))
		c.Stat("cases_with_more_than_two_stream_batches_of_keys", 1)
	}
	full := harness.Prefix + "/"
	fullEnd := string(backend.PrefixEnd([]byte(full)))
	encS, encE := coderC.EncodeObjectKey([]byte(full), 0), coderC.EncodeObjectKey([]byte(fullEnd), 0)
	var floor uint64
	var accepted []uint64
	var vec []string
	sawLower, sawRefused := false, false
	nReq := 6 + r.Intn(15)
	for i := 0; i < nReq; i++ {
		for j := 0; j < r.Intn(4); j++ {
			write()
		}
		cur := n.Committed()
		var req uint64
		kindReq := ""
		switch x := r.Intn(10); {
		case x < 3:
			req, kindReq = cur-uint64(r.Intn(3)), "near-current"
		case x < 5 && len(accepted) > 0:
			req, kindReq = accepted[r.Intn(len(accepted))], "repeated"
		case x < 8 && floor > n.Start+1:
			req, kindReq = n.Start+1+uint64(r.Int63n(int64(floor-n.Start-1))), "older"
		case x < 9:
			req, kindReq = 0, "zero"
		default:
			req, kindReq = cur+uint64(1+r.Intn(1000)), "above-current"
		}
		if req != 0 && req < floor {
			sawLower = true
		}
		if fw != nil && r.Intn(4) == 0 {
			// the same request is first made while the compaction record cannot be read (or cannot be written): whatever
			// that attempt answers, the retry that follows is judged like any other request
			compactKey := []byte(harness.Prefix + "/compact_key")
			how := []string{"unreadable", "unwritable"}[r.Intn(2)]
			if how == "unreadable" {
				fw.GetFault = func(key []byte) error {
					if bytes.Equal(key, compactKey) {
						return errors.New("injected: region is unavailable")
					}
					return nil
				}
			} else {
				fw.Decide = func(b *harness.BatchInfo) harness.Decision {
					for _, op := range b.Ops {
						if bytes.Equal(op.Key, compactKey) {
							return harness.FailDefinite
						}
					}
					return harness.Pass
				}
			}
			fresp, ferr := n.B.Compact(harness.Ctx, req)
			fw.GetFault, fw.Decide = nil, nil
			hist = append(hist, fmt.Sprintf("Compact(%d) [%s] while the compaction record is %s -> (%d, %v)", req, kindReq, how, fresp.GetHeader().GetRevision(), ferr))
			c.Stat("compaction_requests_made_with_the_record_"+how, 1)
			if ferr == nil {
				F := fresp.Header.GetRevision()
				accepted = append(accepted, F)
				if F > floor {
					floor = F
				}
			}
			kindReq += "+retry-after-" + how + "-record"
		}
		resp, err := n.B.Compact(harness.Ctx, req)
		vec = append(vec, kindReq)
		if err != nil {
			hist = append(hist, fmt.Sprintf("Compact(%d) [%s] -> error %v", req, kindReq, err))
			continue
		}
		F := resp.Header.GetRevision()
		hist = append(hist, fmt.Sprintf("Compact(%d) [%s] -> effective %d", req, kindReq, F))
		accepted = append(accepted, F)
		if F > floor {
			floor = F
		}
		// the stored record never goes below the floor
		val, gerr := eng.KV.Get(harness.Ctx, []byte(harness.Prefix+"/compact_key"))
		if gerr != nil || len(val) != 8 {
			c.Violatef("C08 compaction-record-unreadable", wit(), "after an accepted Compact the record is (%x, %v)", val, gerr)
			return
		}
		rec := binary.BigEndian.Uint64(val)
		c.Stat("records_read", 1)
		if rec < floor {
			c.Violatef("C08 compaction-record-lowered", wit(), "stored compaction record is %d after Compact(%d) [%s]; compactions up to revision %d had been accepted before", rec, req, kindReq, floor)
		}
		// reads around every past floor
		probe := map[uint64]bool{floor: true, floor - 1: true, floor + 1: true}
		for _, a := range accepted {
			probe[a] = true
			probe[a-1] = true
		}
		for R := range probe {
			if R <= n.Start || R > n.Committed() {
				continue
			}
			lr, lerr := n.List(full, fullEnd, R, 0)
			c.Stat("range_reads", 1)
			batches, _ := streamAll(n, encS, encE, R)
			// the same reads on the other node, which adopts the compacting node's read revision as a follower does
			f.B.SetCurrentRevision(n.Committed())
			flr, flerr := f.List(full, fullEnd, R, 0)
			fbatches, _ := streamAll(f, encS, encE, R)
			c.Stat("range_reads_on_second_node", 1)
			if R < floor {
				if flerr == nil {
					c.Violatef("C08 range-read-below-floor-served node=second-node-on-same-store", wit(), "List at revision %d on a second node over the same store returned %d kvs although a compaction at %d had been accepted by the first node", R, len(flr.Kvs), floor)
				}
				for _, b := range fbatches {
					if b.RangeResponse.GetMore() {
						c.Violatef("C08 stream-below-floor-served-data node=second-node-on-same-store", wit(), "ListByStream at revision %d on a second node delivered data although the floor is %d", R, floor)
					}
				}
			} else if flerr != nil {
				c.Violatef("C08 range-read-at-or-above-floor-refused node=second-node-on-same-store", wit(), "List at revision %d (floor %d) on the second node failed: %v", R, floor, flerr)
			} else if !sameKVs(m.Snapshot(full, fullEnd, R), flr.Kvs) {
				c.Violatef("C08 range-read-above-floor-differs node=second-node-on-same-store", wit(), "List at revision %d on the second node = %s; snapshot %s", R, kvStr(flr.Kvs), mkvStr(m.Snapshot(full, fullEnd, R)))
			}
			if R < floor {
				if lerr == nil {
					c.Violatef("C08 range-read-below-floor-served", wit(), "List at revision %d returned %d kvs although a compaction at %d had been accepted (last request: Compact(%d) [%s])", R, len(lr.Kvs), floor, req, kindReq)
				} else {
					sawRefused = true
				}
				term := 0
				for bi, b := range batches {
					if b.RangeResponse.GetMore() {
						c.Violatef("C08 stream-below-floor-served-data", wit(), "ListByStream at revision %d delivered a data batch (#%d, %d kvs) although the floor is %d", R, bi, len(b.RangeResponse.GetKvs()), floor)
					} else {
						term++
						if b.Err == "" {
							c.Violatef("C08 stream-below-floor-ended-without-error", wit(), "ListByStream at revision %d below floor %d ended with a clean terminator", R, floor)
						}
					}
				}
				if term != 1 {
					c.Violatef("C08 stream-terminators", wit(), "ListByStream at revision %d: %d terminators", R, term)
				}
			} else {
				// at or above the floor the read must be served and equal the snapshot
				if lerr != nil {
					c.Violatef("C08 range-read-at-or-above-floor-refused", wit(), "List at revision %d (floor %d) failed: %v", R, floor, lerr)
				} else if !sameKVs(m.Snapshot(full, fullEnd, R), lr.Kvs) {
					c.Violatef("C08 range-read-above-floor-differs", wit(), "List at revision %d (floor %d) = %s; snapshot %s", R, floor, kvStr(lr.Kvs), mkvStr(m.Snapshot(full, fullEnd, R)))
				}
				// the streamed range too (several 300-kv batches in the cases that hold many keys)
				var skvs []*proto.KeyValue
				sok := len(batches) > 0
				for _, b := range batches {
					if b.Err != "" {
						sok = false
					}
					skvs = append(skvs, b.RangeResponse.GetKvs()...)
				}
				if sok {
					sort.SliceStable(skvs, func(i, j int) bool { return bytes.Compare(skvs[i].Key, skvs[j].Key) < 0 })
					if !sameKVs(m.Snapshot(full, fullEnd, R), skvs) {
						c.Violatef("C08 streamed-range-above-floor-differs", wit(), "ListByStream at revision %d (floor %d) delivered %d kvs in %d messages which are not the snapshot (%d keys)", R, floor, len(skvs), len(batches), len(m.Snapshot(full, fullEnd, R)))
					}
					c.Stat("streamed_reads_compared", 1)
				}
			}
		}
		// count is served at the latest revision, which is never below the floor
		cr, cerr := n.B.Count(harness.Ctx, &proto.CountRequest{Key: []byte(full), End: []byte(fullEnd)})
		if cerr != nil {
			c.Violatef("C08 count-at-latest-refused", wit(), "Count failed: %v", cerr)
		} else if int(cr.Count) != len(m.Snapshot(full, fullEnd, n.Committed())) {
			c.Violatef("C08 count-differs", wit(), "Count=%d, snapshot has %d", cr.Count, len(m.Snapshot(full, fullEnd, n.Committed())))
		}
	}
	// the compaction record cannot be read for a while (the region holding it is unavailable) although the data can:
	// a range read below the floor must then fail, one way or another - it must not be served
	if fw != nil && floor > n.Start+1 && c.R.Verdict == "held" {
		compactKey := []byte(harness.Prefix + "/compact_key")
		fw.GetFault = func(key []byte) error {
			if bytes.Equal(key, compactKey) {
				return errors.New("injected: region is unavailable")
			}
			return nil
		}
		R := floor - 1
		lr, lerr := n.List(full, fullEnd, R, 0)
		l2, l2err := n.List(full, fullEnd, R, 1)
		batches, _ := streamAll(n, encS, encE, R)
		fw.GetFault = nil
		if lerr == nil {
			c.Violatef("C08 range-read-below-floor-served record=unreadable", wit(), "while the compaction record could not be read, List at revision %d (floor %d) returned %d kvs", R, floor, len(lr.Kvs))
		}
		if l2err == nil {
			c.Violatef("C08 range-read-below-floor-served record=unreadable limited", wit(), "while the compaction record could not be read, List(limit 1) at revision %d (floor %d) returned %d kvs", R, floor, len(l2.Kvs))
		}
		for _, b := range batches {
			if b.RangeResponse.GetMore() {
				c.Violatef("C08 stream-below-floor-served-data record=unreadable", wit(), "while the compaction record could not be read, ListByStream at revision %d delivered data although the floor is %d", R, floor)
			}
		}
		c.Stat("reads_below_the_floor_with_the_record_unreadable", 3)
	}
	c.Stat("compaction_requests", int64(nReq))
	c.AddSet("engines", kind)
	c.Fingerprint(sawLower && sawRefused, kind, vec)
	if c.Index < 4 {
		c.R.Sample = wit()
	}
}

// runC08Overlap: two compaction requests overlap (the leader's own compaction loop, a client's Compact, the
// apiserver's compactor - nothing serialises them). Request A = Compact(low) is held at one of its accesses to the
// compaction record (after a read of it, or right before a write of it - a descheduled goroutine), request
// B = Compact(high) runs to completion meanwhile, then A continues. Whatever A still does, the record must not end
// below the highest revision an accepted request reported, and reads below it must be refused.
func runC08Overlap(c *harness.Case) {
	r := c.Rng
	kind := []string{"memkv", "tikv", "badger"}[(c.Index/8)%3]
	eng, err := harness.NewEngine(kind)
	if err != nil {
		c.Inconclusive(err.Error())
		return
	}
	defer eng.Close()
	w := harness.NewWrap(eng.KV)
	cfg := backend.Config{EnableEtcdCompatibility: true}
	if r.Intn(2) == 0 {
		cfg.SkippedPrefixes = []string{harness.Prefix + "/skip"} // several compaction ranges, i.e. several scanner passes per request
	}
	n := harness.NewNode(harness.NodeOpts{KV: w, Config: cfg})
	defer n.Retire()
	m := harness.NewModel()
	var hist []string
	wit := func() interface{} { return map[string]interface{}{"engine": kind, "history": hist} }
	keys := []string{"/a", "/b", "/c/d", "/skip/s"}
	for i := 0; i < 20+r.Intn(30); i++ {
		k := harness.Prefix + keys[r.Intn(len(keys))]
		var op harness.SeqOp
		live := m.Live(k)
		switch {
		case live == nil:
			op = harness.SeqOp{Kind: "create", Key: k, Val: []byte(fmt.Sprintf("v%d", i))}
		case r.Intn(4) == 0:
			op = harness.SeqOp{Kind: "delete", Key: k, Exp: live.Rev}
		default:
			op = harness.SeqOp{Kind: "update", Key: k, Val: []byte(fmt.Sprintf("v%d", i)), Exp: live.Rev}
		}
		out, mis := n.ApplyChecked(m, op)
		hist = append(hist, op.String()+" -> "+out.String())
		if mis != "" {
			c.Inconclusive("write misbehaved during set-up: " + mis)
			return
		}
	}
	cur := n.Committed()
	low := n.Start + 2 + uint64(r.Int63n(int64(cur-n.Start-4)))
	high := low + 1 + uint64(r.Int63n(int64(cur-low)))
	// the held request names the lower or the higher revision; requests go to the backend or through the native
	// server's Compact handler (which is what a client or the leader's compaction loop reaches)
	first, second := low, high
	switch r.Intn(5) {
	case 0, 1:
		first, second = high, low
	case 2:
		second = first // two requests for the same revision (two compactors with the same schedule)
	}
	viaServer := r.Intn(2) == 0
	bs := brain.New(n.B, n.Metrics, harness.NewPeers(true))
	doCompact := func(rev uint64) (uint64, error) {
		if viaServer {
			resp, cerr := bs.Compact(harness.Ctx, &proto.CompactRequest{Revision: rev})
			if cerr != nil {
				return 0, cerr
			}
			return resp.Header.GetRevision(), nil
		}
		resp, cerr := n.B.Compact(harness.Ctx, rev)
		if cerr != nil {
			return 0, cerr
		}
		return resp.Header.GetRevision(), nil
	}
	compactKey := []byte(harness.Prefix + "/compact_key")
	// hold A at its k-th access of the given kind to the compaction record
	holdKind := []string{"after-read", "before-write"}[r.Intn(2)]
	holdAt := int32(1 + r.Intn(3))
	var seen int32
	var armed int32 = 1
	held := make(chan struct{})
	release := make(chan struct{})
	hold := func() {
		if atomic.LoadInt32(&armed) == 1 && atomic.AddInt32(&seen, 1) == holdAt && atomic.CompareAndSwapInt32(&armed, 1, 0) {
			close(held)
			<-release
		}
	}
	w.AfterGet = func(key, val []byte, gerr error) {
		if holdKind == "after-read" && bytes.Equal(key, compactKey) {
			hold()
		}
	}
	w.BeforeCommit = func(b *harness.BatchInfo) {
		if holdKind == "before-write" {
			for _, op := range b.Ops {
				if bytes.Equal(op.Key, compactKey) {
					hold()
					return
				}
			}
		}
	}
	type ans struct {
		rev uint64
		err error
	}
	aDone := make(chan ans, 1)
	go func() {
		rev, cerr := doCompact(first)
		aDone <- ans{rev: rev, err: cerr}
	}()
	placed := false
	var aAns ans
	select {
	case <-held:
		placed = true
	case aAns = <-aDone:
		atomic.StoreInt32(&armed, 0) // A made fewer such accesses: no overlap, the sequential order A then B is checked
		aDone <- aAns
	}
	revB, errB := doCompact(second)
	if placed && errB == nil {
		// B has been accepted while A is still held: B's answer alone already obliges the node
		val, gerr := eng.KV.Get(harness.Ctx, compactKey)
		rec := uint64(0)
		if gerr == nil && len(val) == 8 {
			rec = binary.BigEndian.Uint64(val)
		}
		_, lerr := n.List(harness.Prefix+"/", string(backend.PrefixEnd([]byte(harness.Prefix+"/"))), revB-1, 0)
		if rec < revB || (lerr == nil && revB-1 > n.Start) {
			hist = append(hist, fmt.Sprintf("Compact(%d) is held at %s #%d of the compaction record; meanwhile Compact(%d) -> (%d, nil); record now %d; List at %d -> err %v", first, holdKind, holdAt, second, revB, rec, revB-1, lerr))
			close(release)
			<-aDone
			if rec < revB {
				c.Violatef("C08 compaction-record-below-accepted-revision overlapping-compactions held="+holdKind, wit(), "Compact(%d) was accepted with effective revision %d while another request was in flight, the stored compaction record is %d at that moment", second, revB, rec)
			} else {
				c.Violatef("C08 range-read-below-floor-served overlapping-compactions while-first-request-in-flight", wit(), "Compact(%d) was accepted with effective revision %d while another request was in flight; List at revision %d was then served", second, revB, revB-1)
			}
			return
		}
		c.Stat("floors_checked_while_the_first_request_was_still_in_flight", 1)
	}
	if placed {
		close(release)
	}
	aAns = <-aDone
	w.AfterGet, w.BeforeCommit = nil, nil
	hist = append(hist, fmt.Sprintf("Compact(%d) [held %s #%d of the compaction record: %v; via native server handler: %v] -> (%d, %v)   overlapped by   Compact(%d) -> (%d, %v)", first, holdKind, holdAt, placed, viaServer, aAns.rev, aAns.err, second, revB, errB))
	var floor uint64
	if aAns.err == nil && aAns.rev > floor {
		floor = aAns.rev
	}
	if errB == nil && revB > floor {
		floor = revB
	}
	if floor == 0 {
		c.Inconclusive("both compaction requests failed")
		return
	}
	val, gerr := eng.KV.Get(harness.Ctx, compactKey)
	if gerr != nil || len(val) != 8 {
		c.Violatef("C08 compaction-record-unreadable", wit(), "after accepted compactions the record is (%x, %v)", val, gerr)
		return
	}
	if rec := binary.BigEndian.Uint64(val); rec < floor {
		c.Violatef("C08 compaction-record-lowered overlapping-compactions held="+holdKind, wit(), "two overlapping compaction requests were accepted with effective revisions up to %d, the stored compaction record ends at %d", floor, rec)
		return
	}
	full := harness.Prefix + "/"
	fullEnd := string(backend.PrefixEnd([]byte(full)))
	for _, R := range []uint64{floor - 1, low, floor, n.Committed()} {
		if R <= n.Start {
			continue
		}
		lr, lerr := n.List(full, fullEnd, R, 0)
		switch {
		case R < floor && lerr == nil:
			c.Violatef("C08 range-read-below-floor-served overlapping-compactions", wit(), "List at revision %d returned %d kvs although a compaction at %d had been accepted", R, len(lr.Kvs), floor)
			return
		case R >= floor && lerr != nil:
			c.Violatef("C08 range-read-at-or-above-floor-refused overlapping-compactions", wit(), "List at revision %d (floor %d) failed: %v", R, floor, lerr)
			return
		case R >= floor && !sameKVs(m.Snapshot(full, fullEnd, R), lr.Kvs):
			c.Violatef("C08 range-read-above-floor-differs overlapping-compactions", wit(), "List at revision %d (floor %d) = %s; snapshot %s", R, floor, kvStr(lr.Kvs), mkvStr(m.Snapshot(full, fullEnd, R)))
			return
		}
	}
	if placed {
		c.Stat("overlapping_compactions_placed", 1)
	}
	c.AddSet("engines", kind)
	c.AddSet("overlap_hold_points", fmt.Sprintf("%s#%d held=%s", holdKind, holdAt, map[bool]string{true: "lower", false: "higher"}[first == low]))
	c.AddSet("overlap_request_paths", map[bool]string{true: "native server handler", false: "backend"}[viaServer])
	c.Fingerprint(placed, "overlap", kind, holdKind, holdAt, c.Index)
	if c.Index < 24 {
		c.R.Sample = wit()
	}
}
