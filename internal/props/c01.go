package props

import (
	"sync"
	"time"

	"github.com/kubewharf/kubebrain/pkg/backend"

	"verif/internal/harness"
)

var c04Once sync.Once

// C01, C02, C04 share the concurrent client workload of conc.go; each has its own oracle and its
// own case mix.

var concEngines = []string{"memkv", "badger", "tikv", "memkv+m", "badger", "tikv", "memkv", "badger+m"}

func concCase(c *harness.Case, forProp string) concCfg {
	r := c.Rng
	cfg := concCfg{
		kind:       concEngines[c.Index%len(concEngines)],
		clients:    2 + r.Intn(7),
		keys:       1 + r.Intn(4),
		opsPer:     10 + r.Intn(30),
		maxDelayUs: []int{0, 50, 200, 200}[r.Intn(4)],
		initStates: []string{"never", "live", "deleted", "compacted"},
		noIdle:     c.Index%5 == 4,
	}
	switch forProp {
	case "C01":
		cfg.futurePct = 3
		if c.Index%4 == 2 {
			// clients that have given up: their request context is already cancelled when the request is made
			cfg.deadCtxPct = 6
		}
	case "C02":
		cfg.readers = 2
		cfg.futurePct = 2
		if c.Index%4 == 3 {
			// a compaction loop that names revisions at or above the newest one handed out, next to slow commits
			cfg.compactor, cfg.compactAhead = true, true
			cfg.maxDelayUs = 500
		}
	case "C04":
		cfg.readers = 2
		cfg.faultPct = 8
		cfg.futurePct = 4
		cfg.maxDelayUs = []int{50, 200, 500}[r.Intn(3)]
		if c.Index%4 == 3 {
			// clients that keep opening watches from the current revision while the writes are being sequenced
			cfg.watchers = 2
		}
		if c.Index%4 == 1 {
			// a compaction loop close behind the read revision: concurrent lists must still be exact snapshots (or be refused)
			cfg.compactor = true
			cfg.readers = 3
		}
		if c.Index%4 == 2 {
			// unknown outcomes (and, by chance, faults on the repair writes of the retry loop) in the mix
			cfg.uncertainPct = 8
			cfg.faultPct = 20
			cfg.readers = 1
			// and clients that have given up: their request context is already cancelled when the request is made
			cfg.deadCtxPct = 6
		}
	}
	return cfg
}

func concName(c *harness.Case) string { return "conc-" + concEngines[c.Index%len(concEngines)] }

func concSample(c *harness.Case, cr *concRun) {
	if c.Index < 4 {
		var h []string
		for i, op := range cr.ops {
			if i >= 30 {
				break
			}
			h = append(h, op.String())
		}
		c.R.Sample = map[string]interface{}{"engine": cr.cfg.kind, "clients": cr.cfg.clients, "keys": cr.cfg.keys, "first_ops_by_call_order": h}
	}
}

// outcomeVector is the revision-ordered outcome vector used as the distinctness fingerprint.
func outcomeVector(cr *concRun) string {
	var b []byte
	for _, key := range cr.keys {
		b = append(b, '|')
		for _, op := range cr.successes()[key] {
			b = append(b, op.Kind[0], byte('0'+op.Client))
		}
	}
	nf := 0
	for _, op := range cr.ops {
		if op.Out.Err == "" && !op.Out.Succeeded && op.Kind != "get" && op.Kind != "list" {
			nf++
		}
	}
	return string(b) + "/" + string(rune('0'+nf%64))
}

func init() {
	Registry["C01"] = &Prop{
		Plan: func(tier string) Plan {
			return Plan{Level: "exploration", NCases: pick(tier, 800, 60000), Batch: 8, CaseTimeout: 60,
				Rule: "one case = one concurrent history: 2-8 clients x 1-4 shared keys x 10-40 ops each (create / guarded update / guarded+unguarded delete / get; correct, stale and future expectations; unique values), " +
					"keys start never-existed / live / deleted / deleted-and-compacted, PRNG delays before the engine commit, engines memkv/Badger/TiKV-mock +- metrics wrapper; " +
					"oracle = chain rule + engine dump equality + certain-unjustified-failure rule + 'a failed compare never names the compared revision' + final read, and independently porcupine on all three engines: each key's sub-history must be linearizable as a register of (revision, live) under conditional writes. " +
					"non-trivial = >=2 writers overlapped (call/return) on one key AND >=1 condition failed; distinct by revision-ordered outcome vector",
				Assumptions: []string{"no request deadline is set, so no unknown outcomes occur (C09 covers those)", "schedules are sampled, not enumerated"},
				MinConcl:    pick(tier, 500, 40000)}
		},
		Name: concName,
		Run: func(c *harness.Case) {
			cr := newConcRun(c, concCase(c, "C01"))
			if cr == nil {
				return
			}
			defer cr.close()
			cr.run(c)
			cr.checkC01(c)
			cr.checkC01Linearizable(c)
			c.Stat("client_ops", int64(len(cr.ops)))
			c.AddSet("engines", cr.cfg.kind)
			c.Fingerprint(c.R.Nontrivial, cr.cfg.kind, outcomeVector(cr))
			concSample(c, cr)
		},
	}
	Registry["C02"] = &Prop{
		Plan: func(tier string) Plan {
			return Plan{Level: "exploration", NCases: pick(tier, 600, 50000), Batch: 8, CaseTimeout: 60,
				Rule: "the C01 concurrent workload plus 2 concurrent List readers; oracle = uniqueness over response-determined and storage-observed revisions, real-time order sweep over (return, call) pairs, per-key monotonicity, header>=data on every response. " +
					"non-trivial = >=50 response-determined revisions and >=1 real-time-ordered pair and >=1 failed write; distinct by outcome vector",
				Assumptions: []string{"the revision of a failed guarded write is taken from the header only when the header exceeds the returned kv revision (otherwise ambiguous and skipped)"},
				MinConcl:    pick(tier, 400, 35000)}
		},
		Name: concName,
		Run: func(c *harness.Case) {
			cr := newConcRun(c, concCase(c, "C02"))
			if cr == nil {
				return
			}
			defer cr.close()
			cr.run(c)
			cr.checkC02(c)
			c.Stat("client_ops", int64(len(cr.ops)))
			c.AddSet("engines", cr.cfg.kind)
			c.Fingerprint(c.R.Stats["stamped_attempts"] >= 50 && c.R.Stats["realtime_ordered_pairs"] > 0, cr.cfg.kind, outcomeVector(cr))
			concSample(c, cr)
		},
	}
}

func init() {
	Registry["C04"] = &Prop{
		Plan: func(tier string) Plan {
			return Plan{Level: "exploration", NCases: pick(tier, 480, 60000), Batch: 8, CaseTimeout: 90,
				Rule: "concurrent workload with delayed commits (0-5 ms, so later allocations finish first), 8% definite storage errors injected at the engine boundary (every 4th case with a compaction loop close behind the read revision; every 4th case also unknown outcomes, which makes the async retry loop and faults on its repair writes part of the schedule), 4% far-future expected revisions, 2 concurrent List readers; every 8th case drives the same through etcd Txn with negative mod revisions. " +
					"monitors: (1) read revision < r at the instant the engine answered r's batch, (2) every dealt revision deposited exactly once at quiescence (notify hook), (3) every concurrent List equals the reference snapshot at its header revision, (4) a final probe write becomes listable. " +
					"non-trivial = >=1 commit finished out of allocation order AND >=1 failed condition AND (>=1 injected storage error OR >=1 rejected future/negative expectation); distinct by outcome vector",
				Assumptions: []string{"storage errors are injected by a wrapper at the storage.KvStorage boundary; real TiKV network faults are not reachable",
					"wedge verdicts come from the deposit-conservation monitor, never from a timeout (watchdog expiry = inconclusive)"},
				MinConcl: pick(tier, 300, 40000)}
		},
		Name: func(c *harness.Case) string {
			if c.Index%8 == 7 {
				return "etcd-negative-" + concEngines[c.Index%len(concEngines)]
			}
			return concName(c)
		},
		Run: func(c *harness.Case) {
			if c.Index%8 == 7 {
				runC04Etcd(c)
				return
			}
			c04Once.Do(func() { backend.VerifSetRetryIntervals(30*time.Millisecond, 10*time.Millisecond) })
			cr := newConcRun(c, concCase(c, "C04"))
			if cr == nil {
				return
			}
			defer cr.close()
			cr.run(c)
			cr.checkC04(c)
			nErr, nFail, nFut := 0, 0, 0
			for _, op := range cr.ops {
				if op.Out.Err != "" {
					nErr++
					if op.Exp > 1000000 {
						nFut++
					}
				} else if !op.Out.Succeeded && op.Kind != "get" && op.Kind != "list" {
					nFail++
				}
			}
			c.Stat("client_ops", int64(len(cr.ops)))
			c.Stat("errored_requests", int64(nErr))
			c.Stat("rejected_future_expectations", int64(nFut))
			c.AddSet("engines", cr.cfg.kind)
			c.Fingerprint(cr.oooDone > 0 && nFail > 0 && nErr > 0, cr.cfg.kind, outcomeVector(cr))
			concSample(c, cr)
		},
	}
}
