package props

import (
	"context"
	"encoding/json"
	"errors"
	"fmt"
	"io/ioutil"
	"math"
	"math/rand"
	"os"
	"path/filepath"
	"runtime/debug"
	"strings"
	"sync"
	"sync/atomic"
	"time"

	"github.com/golang/protobuf/proto"
	pb "github.com/kubewharf/kubebrain-client/api/v2rpc"
	"go.etcd.io/etcd/api/v3/etcdserverpb"

	"github.com/kubewharf/kubebrain/pkg/backend"
	"github.com/kubewharf/kubebrain/pkg/server/brain"
	"github.com/kubewharf/kubebrain/pkg/server/etcd"

	"verif/internal/harness"
)

// C20 — no request can crash or wedge a node, with production metrics enabled.

func init() {
	Registry["C20"] = &Prop{
		Plan: func(tier string) Plan {
			return Plan{Level: "exploration", NCases: pick(tier, 120, 6000), Batch: 3, CaseTimeout: 240,
				Rule: "one case = a node wired as cmd/option.Run wires it (REAL Prometheus client with the cluster label, storage metrics wrapper, backend, etcd and native servers) receiving a burst of 8 concurrent first requests and then 80 generated requests: request structs of etcd Txn/Range/Watch/Lease and native Create/Update/Delete/Get/Range/Count/ListPartition/RangeStream/Compact/Watch are filled with PRNG values biased to hostile ones (keys of arbitrary bytes incl. invalid UTF-8, empty, containing '$' and the internal magic prefix; revisions 0, +-1, MinInt64, MaxInt64, 1888, far future; negative and huge limits; missing sub-messages; unsupported shapes), marshalled and unmarshalled (so exactly the protobuf-decodable ones) and written to disk before being sent. " +
					"oracle: the call returns within a watchdog; no panic (recovered in the calling goroutine, process death otherwise, the last logged request being the witness); a recording metrics decorator never sees one metric name with two label-name sets or kinds; after every request a probe create + Range(rev=0) + a pre-opened watcher see the new key, and the notify-deposit conservation monitor (C04) gives the wedge verdict without a timeout. " +
					"Every 24th case is instead a tour of the metric call sites a healthy stub-elected leader never reaches: two complete nodes built by server.NewServer over one store (real Campaign, real peer HTTP endpoint, real revision syncer, gRPC with the production interceptors), one leading and one following, every request type on both, lease/cluster calls, an unknown outcome repaired by the retry loop, compactions with a failing delete and a failing record write, an iterator error, a watcher that overflows, the follower losing its leader's endpoint; a process-wide table of (metric name -> kind, label names) must stay single-valued. " +
					"non-trivial = case that sent >=10 distinct request types incl. >=1 watch on a non-UTF-8 prefix, >=1 negative revision and >=1 unsupported txn; distinct by request digest",
				Assumptions: []string{"3 of 4 cases call the handlers in-process with protobuf-round-tripped requests, every 4th goes through a real loopback gRPC connection with the metrics client's server options", "in the fuzz cases the election is a stub reporting 'leader'; the tour cases run the real election; TLS call sites and leader.election.lost (which ends the process) are not reachable",
					"metric call sites reached are listed in evidence; unreached ones are not claimed"},
				MinConcl: pick(tier, 90, 4800)}
		},
		Name: func(c *harness.Case) string {
			if c.Index%24 == 11 {
				return "metric-call-site-tour"
			}
			return "fuzz-" + []string{"memkv", "badger", "tikv"}[c.Index%3]
		},
		Run: func(c *harness.Case) {
			if c.Index%24 == 11 {
				runC20Tour(c)
				return
			}
			runC20(c)
		},
	}
}

func hostileKey(r *rand.Rand) []byte {
	magic := "\x57\xfb\x80\x8b"
	switch r.Intn(16) {
	case 0:
		return nil
	case 1:
		return []byte{}
	case 2:
		return []byte("/")
	case 3:
		return []byte(harness.Prefix + "/\xff\xfe\xfd") // invalid UTF-8 under the prefix
	case 4:
		return []byte("/\xc3\x28\xa0\xa1") // invalid UTF-8, watchable
	case 5:
		return []byte(harness.Prefix + "/with$dollar")
	case 6:
		return []byte(magic + harness.Prefix + "/x$\x00\x00\x00\x00\x00\x00\x00\x01")
	case 7:
		return []byte(harness.Prefix + "/compact_key")
	case 8:
		return []byte(harness.Prefix + "/election")
	case 9:
		b := make([]byte, 1+r.Intn(12))
		r.Read(b)
		return b
	case 10:
		return []byte("compact_rev_key")
	case 11:
		return []byte(strings.Repeat("k", 1+r.Intn(70000)))
	case 12:
		return []byte(harness.Prefix + "/events/ns/e1")
	case 13:
		return []byte{0}
	default:
		return []byte(fmt.Sprintf("%s/fz/k%d", harness.Prefix, r.Intn(6)))
	}
}

func hostileRev(r *rand.Rand, cur uint64) int64 {
	switch r.Intn(12) {
	case 0:
		return 0
	case 1:
		return 1
	case 2:
		return -1
	case 3:
		return math.MinInt64
	case 4:
		return math.MaxInt64
	case 5:
		return 1888
	case 6:
		return int64(cur)
	case 7:
		return int64(cur) + 1
	case 8:
		return int64(cur) - 1
	case 9:
		return int64(cur) + 1000000
	case 10:
		return -int64(cur)
	}
	return r.Int63()
}

func hostileLimit(r *rand.Rand) int64 {
	return []int64{0, 1, -1, math.MinInt64, math.MaxInt64, 2, 1000}[r.Intn(7)]
}

// roundTrip marshals and unmarshals a request so that exactly protobuf-decodable messages are sent.
func roundTrip(m proto.Message, out proto.Message) bool {
	b, err := proto.Marshal(m)
	if err != nil {
		return false
	}
	return proto.Unmarshal(b, out) == nil
}

type c20Node struct {
	n   *harness.Node
	es  *etcd.RPCServer
	bs  *brain.Server
	rm  *harness.RecMetrics
	eng *harness.Engine
}

func runC20(c *harness.Case) {
	r := c.Rng
	kind := []string{"memkv", "badger", "tikv"}[c.Index%3]
	eng, err := harness.NewEngine(kind)
	if err != nil {
		c.Inconclusive(err.Error())
		return
	}
	defer func() {
		// with engine faults a scan may still be in its retry backoff when the case ends (the scanner retries a failed
		// partition after 1 s and 3 s): the engine stays open, as it would in a running node
		if (c.Index/4)%2 == 0 {
			eng.Close()
		}
	}()
	rm := harness.NewRecMetrics(true)
	// in every other group of four cases the engine misbehaves while a hostile request is being served (and only then):
	// a quarter of the write batches fail - definitely, or with an unknown outcome, applied or not -, one in eight
	// point reads and one in 96 iterator steps answer an error. The request may fail; the node must not panic or wedge.
	faulty := (c.Index/4)%2 == 1
	fw := harness.NewWrap(eng.KV)
	var faultsArmed int32
	var faultSeq, faultsInjected uint64
	fseed := uint64(r.Int63())
	fdraw := func(mod uint64) uint64 {
		x := fseed ^ atomic.AddUint64(&faultSeq, 1)*0x9e3779b97f4a7c15
		x ^= x >> 31
		return x % mod
	}
	if faulty {
		fw.Decide = func(b *harness.BatchInfo) harness.Decision {
			if atomic.LoadInt32(&faultsArmed) == 0 {
				return harness.Pass
			}
			switch fdraw(16) {
			case 0, 1:
				atomic.AddUint64(&faultsInjected, 1)
				return harness.FailDefinite
			case 2:
				atomic.AddUint64(&faultsInjected, 1)
				return harness.UncertainApplied
			case 3:
				atomic.AddUint64(&faultsInjected, 1)
				return harness.UncertainNotApplied
			}
			return harness.Pass
		}
		fw.GetFault = func(key []byte) error {
			if atomic.LoadInt32(&faultsArmed) == 1 && fdraw(8) == 0 {
				atomic.AddUint64(&faultsInjected, 1)
				return errors.New("injected: region is unavailable")
			}
			return nil
		}
		fw.IterFault = func(start, end []byte, k int) error {
			// (rarer than the others: the scanner answers every failed step with a retry after 1 s and then 3 s)
			if atomic.LoadInt32(&faultsArmed) == 1 && fdraw(96) == 0 {
				atomic.AddUint64(&faultsInjected, 1)
				return errors.New("injected iterator error")
			}
			return nil
		}
	}
	kv := harness.WithMetrics(fw, rm)
	n := harness.NewNode(harness.NodeOpts{KV: kv, Metrics: rm, TrackNotify: true, Config: backend.Config{EnableEtcdCompatibility: c.Index%2 == 0, WatchCacheSize: 2048}})
	defer n.Retire()
	peers := harness.NewPeers(true)
	esReal := etcd.New(n.B, rm, peers)
	bsReal := brain.New(n.B, rm, peers)
	var es etcdAPI = esReal
	var bs brainAPI = bsReal
	transport := "in-process"
	if c.Index%4 == 3 {
		// every 4th case goes through a real gRPC connection with the production interceptors: real protobuf
		// decoding on the server side, and a handler panic is then a process crash (witness: the last logged request)
		g, gerr := newGRPCNode(esReal, bsReal, rm)
		if gerr != nil {
			c.Inconclusive("grpc: " + gerr.Error())
			return
		}
		defer g.close()
		es, bs, transport = g.etcdGRPC, g.brainGRPC, "grpc"
	}
	c.AddSet("transports", transport)
	// pre-opened watcher for the probe
	probeCh, werr := n.B.Watch(harness.Ctx, harness.Prefix+"/zz-probe/", 0)
	if werr != nil {
		c.Inconclusive("probe watch refused")
		return
	}
	reqDir := filepath.Join(harness.ScratchRoot, fmt.Sprintf("c20-req-%d-%d", os.Getpid(), c.Index))
	os.MkdirAll(reqDir, 0755)
	defer os.RemoveAll(reqDir)
	var log []string
	types := map[string]bool{}
	nonUTF8Watch, negRev, unsupported := 0, 0, 0
	wit := func(cur string) interface{} {
		l := log
		if len(l) > 60 {
			l = l[len(l)-60:]
		}
		return map[string]interface{}{"engine": kind, "current_request": cur, "previous_requests": l}
	}
	// call runs f with recover and a watchdog
	call := func(name, desc string, f func() error) bool {
		types[name] = true
		_ = ioutil.WriteFile(filepath.Join(reqDir, "last.txt"), []byte(desc), 0644)
		fmt.Fprintf(os.Stderr, "C20 case %d sending %s\n", c.Index, trunc(desc, 300))
		done := make(chan string, 1)
		var cerr error
		go func() {
			defer func() {
				if p := recover(); p != nil {
					done <- fmt.Sprintf("panic: %v\n%s", p, debug.Stack())
				}
			}()
			atomic.StoreInt32(&faultsArmed, 1)
			cerr = f()
			atomic.StoreInt32(&faultsArmed, 0)
			done <- ""
		}()
		select {
		case p := <-done:
			if p != "" {
				atomic.StoreInt32(&faultsArmed, 0)
				fn := firstKubebrainFrame(p)
				c.Violatef("C20 handler-panicked request="+name+" at="+fn, wit(desc), "request %s made the handler panic: %s", trunc(desc, 400), trunc(p, 1500))
				log = append(log, desc+" -> PANIC")
				return false
			}
		case <-time.After(30 * time.Second):
			c.Inconclusive("watchdog: request " + name + " did not return within 30s: " + trunc(desc, 300))
			return false
		}
		log = append(log, fmt.Sprintf("%s -> err=%v", trunc(desc, 200), cerr != nil))
		return true
	}
	probeSeq := 0
	probe := func(after string) bool {
		// conservation first: exact, no clock
		if missing, _, dealt, dropped := n.Conservation(); len(missing) > 0 {
			// a write in flight from a streaming handler could still deposit; re-check after the sequencer had time
			time.Sleep(20 * time.Millisecond)
			if missing2, _, _, _ := n.Conservation(); len(missing2) > 0 && missing2[0] == missing[0] {
				c.Violatef("C20 node-wedged-after-request", wit(after), "after %s: revision %d (of %d dealt) was never resolved (dropped notify calls: %d); reads and watches are frozen", trunc(after, 300), missing[0], dealt-n.Start, dropped)
				return false
			}
		}
		probeSeq++
		key := fmt.Sprintf("%s/zz-probe/p%d", harness.Prefix, probeSeq)
		resp, err := n.Create(key, []byte("probe"))
		if err != nil || !resp.Succeeded {
			c.Violatef("C20 probe-write-failed-after-request", wit(after), "after %s: a plain create answered %v %v", trunc(after, 300), resp, err)
			return false
		}
		if !n.WaitCommitted(resp.Header.GetRevision(), 30*time.Second) {
			if missing, _, _, _ := n.Conservation(); len(missing) > 0 {
				c.Violatef("C20 node-wedged-after-request", wit(after), "after %s: revision %d never resolved; the probe write never became readable", trunc(after, 300), missing[0])
			} else {
				c.Inconclusive("watchdog waiting for the probe write")
			}
			return false
		}
		rr, err := es.Range(context.Background(), &etcdserverpb.RangeRequest{Key: []byte(key)})
		if err != nil || len(rr.Kvs) != 1 {
			c.Violatef("C20 probe-not-readable-after-request", wit(after), "after %s: Range of the probe key: %v %v", trunc(after, 300), rr, err)
			return false
		}
		select {
		case b, ok := <-probeCh:
			if !ok || string(b[len(b)-1].Kv.Key) != key {
				c.Violatef("C20 probe-not-watchable-after-request", wit(after), "after %s: the pre-opened watcher got %v (closed=%v), expected the probe key", trunc(after, 300), b, !ok)
				return false
			}
		case <-time.After(30 * time.Second):
			c.Inconclusive("watchdog waiting for the probe event")
			return false
		}
		return true
	}
	ctx := context.Background()
	// a burst of concurrent first requests: in the first case of a worker process these are the first-ever emissions
	// of their metrics, made concurrently (metric registration must be safe under concurrency as well)
	{
		var bwg sync.WaitGroup
		gate := make(chan struct{})
		for g := 0; g < 8; g++ {
			bwg.Add(1)
			go func(g int) {
				defer bwg.Done()
				<-gate
				k := []byte(fmt.Sprintf("%s/fz/burst%d", harness.Prefix, g%3))
				switch g % 4 {
				case 0:
					es.Range(ctx, &etcdserverpb.RangeRequest{Key: k})
				case 1:
					es.Txn(ctx, etcdCreate(string(k), []byte("b")))
				case 2:
					bs.Get(ctx, &pb.GetRequest{Key: k})
				default:
					es.Range(ctx, &etcdserverpb.RangeRequest{Key: []byte(harness.Prefix + "/"), RangeEnd: []byte(harness.Prefix + "0"), Limit: 2})
				}
			}(g)
		}
		fmt.Fprintf(os.Stderr, "C20 case %d sending a burst of 8 concurrent first requests (Range/Txn/Get)\n", c.Index)
		close(gate)
		bwg.Wait()
		c.Stat("concurrent_burst_requests", 8)
		if !probe("burst of 8 concurrent requests") {
			return
		}
	}
	for i := 0; i < 80; i++ {
		cur := n.Committed()
		key, key2 := hostileKey(r), hostileKey(r)
		val := []byte(fmt.Sprintf("v%d", i))
		if r.Intn(6) == 0 {
			val = nil
		}
		rev := hostileRev(r, cur)
		if rev < 0 {
			negRev++
		}
		ok := true
		desc := ""
		switch x := r.Intn(20); x {
		case 0, 1: // etcd txn, supported shapes with hostile content
			var req *etcdserverpb.TxnRequest
			switch r.Intn(4) {
			case 0:
				req = etcdCreate(string(key), val)
			case 1:
				req = etcdUpdate(string(key), val, rev)
			case 2:
				req = etcdGuardedDelete(string(key), rev)
			default:
				req = etcdUnguardedDelete(string(key))
			}
			var in etcdserverpb.TxnRequest
			roundTrip(req, &in)
			desc = fmt.Sprintf("etcd.Txn %s", in.String())
			ok = call("etcd.Txn", desc, func() error { _, err := es.Txn(ctx, &in); return err })
		case 2: // etcd txn, structurally odd
			unsupported++
			req := &etcdserverpb.TxnRequest{}
			for j := 0; j < r.Intn(3); j++ {
				cmp := &etcdserverpb.Compare{Key: key, Target: etcdserverpb.Compare_CompareTarget(r.Intn(5)), Result: etcdserverpb.Compare_CompareResult(r.Intn(4))}
				if r.Intn(2) == 0 {
					cmp.TargetUnion = &etcdserverpb.Compare_ModRevision{ModRevision: rev}
				}
				req.Compare = append(req.Compare, cmp)
			}
			mk := func() *etcdserverpb.RequestOp {
				switch r.Intn(5) {
				case 0:
					return &etcdserverpb.RequestOp{} // empty oneof
				case 1:
					return put(string(key2), val)
				case 2:
					return del(string(key2))
				case 3:
					return rng(string(key2))
				}
				return &etcdserverpb.RequestOp{Request: &etcdserverpb.RequestOp_RequestTxn{RequestTxn: &etcdserverpb.TxnRequest{}}}
			}
			for j := 0; j < r.Intn(3); j++ {
				req.Success = append(req.Success, mk())
			}
			for j := 0; j < r.Intn(3); j++ {
				req.Failure = append(req.Failure, mk())
			}
			var in etcdserverpb.TxnRequest
			roundTrip(req, &in)
			desc = fmt.Sprintf("etcd.Txn(odd) %s", in.String())
			ok = call("etcd.Txn(odd)", desc, func() error { _, err := es.Txn(ctx, &in); return err })
		case 3, 4:
			req := &etcdserverpb.RangeRequest{Key: key, RangeEnd: key2, Revision: rev, Limit: hostileLimit(r), CountOnly: r.Intn(5) == 0}
			if r.Intn(3) == 0 {
				req.RangeEnd = nil
			}
			var in etcdserverpb.RangeRequest
			roundTrip(req, &in)
			desc = fmt.Sprintf("etcd.Range %s", in.String())
			ok = call("etcd.Range", desc, func() error { _, err := es.Range(ctx, &in); return err })
		case 5, 6: // etcd watch / range stream
			wctx, cancel := context.WithCancel(ctx)
			fw := newFakeWatchServer(wctx)
			cr := &etcdserverpb.WatchCreateRequest{Key: key, RangeEnd: key2, StartRevision: rev, PrevKv: r.Intn(2) == 0}
			if len(key) > 0 && key[0] == '/' && !isUTF8(key) && rev >= 0 {
				nonUTF8Watch++
			}
			var in etcdserverpb.WatchCreateRequest
			roundTrip(cr, &in)
			desc = fmt.Sprintf("etcd.Watch create{%s} then close", in.String())
			ok = call("etcd.Watch", desc, func() error {
				done := make(chan error, 1)
				go func() {
					defer func() {
						if p := recover(); p != nil {
							done <- fmt.Errorf("panic in Watch: %v\n%s", p, debug.Stack())
						}
					}()
					done <- es.Watch(fw)
				}()
				fw.in <- &etcdserverpb.WatchRequest{RequestUnion: &etcdserverpb.WatchRequest_CreateRequest{CreateRequest: &in}}
				if r.Intn(2) == 0 {
					fw.in <- &etcdserverpb.WatchRequest{RequestUnion: &etcdserverpb.WatchRequest_CancelRequest{CancelRequest: &etcdserverpb.WatchCancelRequest{WatchId: r.Int63n(5)}}}
				}
				if r.Intn(4) == 0 {
					fw.in <- &etcdserverpb.WatchRequest{} // neither create nor cancel
				}
				time.Sleep(time.Duration(2+r.Intn(8)) * time.Millisecond)
				cancel()
				select {
				case e := <-done:
					if e != nil && strings.HasPrefix(e.Error(), "panic in Watch") {
						panic(e.Error())
					}
				case <-time.After(20 * time.Second):
					return fmt.Errorf("watch handler did not end after its stream was closed")
				}
				time.Sleep(3 * time.Millisecond) // stream-close bookkeeping (metrics) runs in backend goroutines
				return nil
			})
			cancel()
		case 7:
			req := &etcdserverpb.LeaseGrantRequest{TTL: rev, ID: rev}
			desc = "etcd.LeaseGrant " + req.String()
			ok = call("etcd.Lease", desc, func() error {
				es.LeaseGrant(ctx, req)
				es.LeaseRevoke(ctx, &etcdserverpb.LeaseRevokeRequest{ID: rev})
				es.LeaseTimeToLive(ctx, &etcdserverpb.LeaseTimeToLiveRequest{ID: rev})
				es.Compact(ctx, &etcdserverpb.CompactionRequest{Revision: rev})
				es.Put(ctx, &etcdserverpb.PutRequest{Key: key})
				es.DeleteRange(ctx, &etcdserverpb.DeleteRangeRequest{Key: key})
				return nil
			})
		case 8:
			var in pb.CreateRequest
			roundTrip(&pb.CreateRequest{Key: key, Value: val, Lease: rev}, &in)
			desc = "brain.Create " + in.String()
			ok = call("brain.Create", desc, func() error { _, err := bs.Create(ctx, &in); return err })
		case 9, 10:
			req := &pb.UpdateRequest{Kv: &pb.KeyValue{Key: key, Value: val, Revision: uint64(rev)}, Lease: rev}
			if r.Intn(8) == 0 {
				req.Kv = nil
			}
			var in pb.UpdateRequest
			roundTrip(req, &in)
			desc = "brain.Update " + in.String()
			ok = call("brain.Update", desc, func() error { _, err := bs.Update(ctx, &in); return err })
		case 11:
			var in pb.DeleteRequest
			roundTrip(&pb.DeleteRequest{Key: key, Revision: uint64(rev)}, &in)
			desc = "brain.Delete " + in.String()
			ok = call("brain.Delete", desc, func() error { _, err := bs.Delete(ctx, &in); return err })
		case 12:
			var in pb.GetRequest
			roundTrip(&pb.GetRequest{Key: key, Revision: uint64(rev)}, &in)
			desc = "brain.Get " + in.String()
			ok = call("brain.Get", desc, func() error { _, err := bs.Get(ctx, &in); return err })
		case 13, 14:
			var in pb.RangeRequest
			roundTrip(&pb.RangeRequest{Key: key, End: key2, Revision: uint64(rev), Limit: hostileLimit(r)}, &in)
			desc = "brain.Range " + in.String()
			ok = call("brain.Range", desc, func() error { _, err := bs.Range(ctx, &in); return err })
		case 15:
			var in pb.CountRequest
			roundTrip(&pb.CountRequest{Key: key, End: key2}, &in)
			desc = "brain.Count " + in.String()
			ok = call("brain.Count", desc, func() error { _, err := bs.Count(ctx, &in); return err })
			if ok {
				var in2 pb.ListPartitionRequest
				roundTrip(&pb.ListPartitionRequest{Key: key, End: key2}, &in2)
				desc = "brain.ListPartition " + in2.String()
				ok = call("brain.ListPartition", desc, func() error { _, err := bs.ListPartition(ctx, &in2); return err })
			}
		case 16:
			var in pb.RangeRequest
			roundTrip(&pb.RangeRequest{Key: key, End: key2, Revision: uint64(rev)}, &in)
			desc = "brain.RangeStream " + in.String()
			ok = call("brain.RangeStream", desc, func() error {
				return bs.RangeStream(&in, &fakeRangeStream{fakeStream: fakeStream{ctx: ctx}})
			})
		case 17:
			var in pb.CompactRequest
			roundTrip(&pb.CompactRequest{Revision: uint64(rev)}, &in)
			desc = "brain.Compact " + in.String()
			ok = call("brain.Compact", desc, func() error { _, err := bs.Compact(ctx, &in); return err })
		default:
			var in pb.WatchRequest
			roundTrip(&pb.WatchRequest{Key: key, End: key2, Revision: uint64(rev)}, &in)
			if !isUTF8(key) && len(key) > 0 {
				nonUTF8Watch++
			}
			desc = "brain.Watch " + in.String() + " then close"
			ok = call("brain.Watch", desc, func() error {
				wctx, cancel := context.WithCancel(ctx)
				done := make(chan error, 1)
				go func() {
					defer func() {
						if p := recover(); p != nil {
							done <- fmt.Errorf("panic in Watch: %v\n%s", p, debug.Stack())
						}
					}()
					done <- bs.Watch(&in, &fakeBrainWatch{fakeStream: fakeStream{ctx: wctx}})
				}()
				time.Sleep(time.Duration(1+r.Intn(5)) * time.Millisecond)
				cancel()
				select {
				case e := <-done:
					if e != nil && strings.HasPrefix(e.Error(), "panic in Watch") {
						panic(e.Error())
					}
				case <-time.After(20 * time.Second):
					return fmt.Errorf("watch handler did not end after its stream was closed")
				}
				time.Sleep(3 * time.Millisecond)
				return nil
			})
		}
		if !ok {
			break
		}
		if !probe(desc) {
			break
		}
		c.Stat("requests_sent", 1)
	}
	if inc := rm.Inconsistent(); len(inc) > 0 {
		for _, s := range inc {
			name := s
			if i := strings.Index(s, ":"); i > 0 {
				name = s[:i]
			}
			c.Violatef("C20 metric-emitted-with-two-label-sets metric="+name, map[string]interface{}{"engine": kind}, "metric emitted with different label-name sets or kinds: %s", s)
		}
	}
	for t := range types {
		c.AddSet("request_types", t)
	}
	for _, m := range rm.Names() {
		c.AddSet("metric_names_reached", m)
	}
	c.AddSet("engines", kind)
	if faulty {
		c.Stat("engine_faults_injected_while_a_hostile_request_was_served", int64(atomic.LoadUint64(&faultsInjected)))
	}
	c.Stat("metric_emissions", rm.Emitted)
	b, _ := json.Marshal(log)
	c.Fingerprint(len(types) >= 10 && nonUTF8Watch > 0 && negRev > 0 && unsupported > 0, kind, len(b), c.Index)
	if c.Index < 3 {
		c.R.Sample = map[string]interface{}{"engine": kind, "first_requests": tailStr(log[:min(len(log), 12)], 12)}
	}
}

func min(a, b int) int {
	if a < b {
		return a
	}
	return b
}

func isUTF8(b []byte) bool {
	return strings.ToValidUTF8(string(b), "�") == string(b)
}

func trunc(s string, n int) string {
	if len(s) > n {
		return s[:n] + "..."
	}
	return s
}

func firstKubebrainFrame(stack string) string {
	for _, l := range strings.Split(stack, "\n") {
		l = strings.TrimSpace(l)
		if strings.HasPrefix(l, "github.com/kubewharf/kubebrain/") {
			if i := strings.Index(l, "("); i > 0 {
				// keep package.func, drop arguments
				j := strings.LastIndex(l, "(")
				return l[:j]
			}
			return l
		}
	}
	return "unknown"
}
