package harness

import (
	"fmt"
	"net/http"
	"sort"
	"strings"
	"sync"
	"time"

	"google.golang.org/grpc"

	"github.com/kubewharf/kubebrain/pkg/metrics"
	kbprom "github.com/kubewharf/kubebrain/pkg/metrics/prometheus"
)

// RecMetrics is a metrics.Metrics decorator. It records, per metric name, the kind and the set of
// label names of every emission and (optionally) forwards to the real Prometheus client of
// pkg/metrics/prometheus. The real client registers into a process-global registry, so a process
// owns at most one of them (Prom()).
type RecMetrics struct {
	mu      sync.Mutex
	inner   metrics.Metrics
	table   map[string]map[string]int // name -> "kind|l1,l2" -> count
	panics  []string
	Emitted int64
	// Slow makes the emission of the named metrics take that long (a metrics sink is allowed to be slow)
	Slow map[string]time.Duration
}

var (
	promOnce sync.Once
	promCli  metrics.Metrics
)

// Prom returns the process-wide real Prometheus client (global label cluster=default, as cmd/option does).
func Prom() metrics.Metrics {
	promOnce.Do(func() { promCli = kbprom.NewMetrics(metrics.Tag("cluster", "default")) })
	return promCli
}

// NewRecMetrics builds a recorder; real=true forwards to the real Prometheus client.
func NewRecMetrics(real bool) *RecMetrics {
	r := &RecMetrics{table: map[string]map[string]int{}}
	if real {
		r.inner = Prom()
	}
	return r
}

func (r *RecMetrics) rec(kind, name string, tags []metrics.T) {
	if d, ok := r.Slow[name]; ok {
		time.Sleep(d)
	}
	names := make([]string, 0, len(tags))
	for _, t := range tags {
		names = append(names, t.Name)
	}
	sort.Strings(names)
	k := kind + "|" + strings.Join(names, ",")
	r.mu.Lock()
	m := r.table[name]
	if m == nil {
		m = map[string]int{}
		r.table[name] = m
	}
	m[k]++
	r.Emitted++
	r.mu.Unlock()
	if r.inner != nil {
		// every recorder that forwards to the process-wide Prometheus client also feeds one process-wide table
		globalMu.Lock()
		g := globalTable[name]
		if g == nil {
			g = map[string]int{}
			globalTable[name] = g
		}
		g[k]++
		globalMu.Unlock()
	}
}

var (
	globalMu    sync.Mutex
	globalTable = map[string]map[string]int{}
)

// GlobalInconsistentMetrics lists metric names that reached the real Prometheus client of this process with more
// than one (kind, label-name set), from whatever node or recorder.
func GlobalInconsistentMetrics() []string {
	globalMu.Lock()
	defer globalMu.Unlock()
	var out []string
	for name, m := range globalTable {
		if len(m) > 1 {
			var ks []string
			for k := range m {
				ks = append(ks, k)
			}
			sort.Strings(ks)
			out = append(out, fmt.Sprintf("%s: %s", name, strings.Join(ks, " vs ")))
		}
	}
	sort.Strings(out)
	return out
}

// GetGrpcServerOption implements metrics.Metrics
func (r *RecMetrics) GetGrpcServerOption() []grpc.ServerOption {
	if r.inner != nil {
		return r.inner.GetGrpcServerOption()
	}
	return nil
}

// GetHttpHandlers implements metrics.Metrics
func (r *RecMetrics) GetHttpHandlers() map[string]http.Handler {
	if r.inner != nil {
		return r.inner.GetHttpHandlers()
	}
	return nil
}

// EmitCounter implements metrics.Metrics
func (r *RecMetrics) EmitCounter(name string, value interface{}, tags ...metrics.T) error {
	r.rec("counter", name, tags)
	if r.inner != nil {
		return r.inner.EmitCounter(name, value, tags...)
	}
	return nil
}

// EmitGauge implements metrics.Metrics
func (r *RecMetrics) EmitGauge(name string, value interface{}, tags ...metrics.T) error {
	r.rec("gauge", name, tags)
	if r.inner != nil {
		return r.inner.EmitGauge(name, value, tags...)
	}
	return nil
}

// EmitHistogram implements metrics.Metrics
func (r *RecMetrics) EmitHistogram(name string, value interface{}, tags ...metrics.T) error {
	r.rec("histogram", name, tags)
	if r.inner != nil {
		return r.inner.EmitHistogram(name, value, tags...)
	}
	return nil
}

// Inconsistent lists metric names that were emitted with more than one (kind, label-name set).
func (r *RecMetrics) Inconsistent() []string {
	r.mu.Lock()
	defer r.mu.Unlock()
	var out []string
	for name, m := range r.table {
		if len(m) > 1 {
			var ks []string
			for k := range m {
				ks = append(ks, k)
			}
			sort.Strings(ks)
			out = append(out, fmt.Sprintf("%s: %s", name, strings.Join(ks, " vs ")))
		}
	}
	sort.Strings(out)
	return out
}

// Names returns the metric names seen so far.
func (r *RecMetrics) Names() []string {
	r.mu.Lock()
	defer r.mu.Unlock()
	var out []string
	for name := range r.table {
		out = append(out, name)
	}
	sort.Strings(out)
	return out
}
