package harness

import (
	"bytes"
	"sort"
)

// Ver is one version of a key in the reference model.
type Ver struct {
	Rev uint64
	Val []byte
	Del bool
}

// Model is the executable MVCC reference: per key the list of versions in revision order.
type Model struct {
	Keys map[string][]Ver
}

// NewModel returns an empty model.
func NewModel() *Model { return &Model{Keys: map[string][]Ver{}} }

// Clone deep-copies the model (values are shared, they are never mutated).
func (m *Model) Clone() *Model {
	c := NewModel()
	for k, vs := range m.Keys {
		c.Keys[k] = append([]Ver(nil), vs...)
	}
	return c
}

// Put records a live version.
func (m *Model) Put(key string, rev uint64, val []byte) {
	m.Keys[key] = append(m.Keys[key], Ver{Rev: rev, Val: val})
}

// Del records a deletion.
func (m *Model) Del(key string, rev uint64) {
	m.Keys[key] = append(m.Keys[key], Ver{Rev: rev, Del: true})
}

// Latest returns the newest version of key (nil if the key never existed).
func (m *Model) Latest(key string) *Ver {
	vs := m.Keys[key]
	if len(vs) == 0 {
		return nil
	}
	return &vs[len(vs)-1]
}

// Live returns the newest version if it is live, else nil.
func (m *Model) Live(key string) *Ver {
	v := m.Latest(key)
	if v == nil || v.Del {
		return nil
	}
	return v
}

// At returns the version visible at revision r (nil if none or deleted).
func (m *Model) At(key string, r uint64) *Ver {
	vs := m.Keys[key]
	i := sort.Search(len(vs), func(i int) bool { return vs[i].Rev > r })
	if i == 0 {
		return nil
	}
	v := &vs[i-1]
	if v.Del {
		return nil
	}
	return v
}

// MKV is a model key-value.
type MKV struct {
	Key string
	Val []byte
	Rev uint64
}

// Snapshot returns the live keys in [start, end) at revision r, sorted by key.
func (m *Model) Snapshot(start, end string, r uint64) []MKV {
	var out []MKV
	for k := range m.Keys {
		if k >= start && (end == "" || k < end) {
			if v := m.At(k, r); v != nil {
				out = append(out, MKV{Key: k, Val: v.Val, Rev: v.Rev})
			}
		}
	}
	sort.Slice(out, func(i, j int) bool { return out[i].Key < out[j].Key })
	return out
}

// SortedKeys returns every key ever used.
func (m *Model) SortedKeys() []string {
	var ks []string
	for k := range m.Keys {
		ks = append(ks, k)
	}
	sort.Strings(ks)
	return ks
}

// EqualKVs compares a model slice with (key,val,rev) triples.
func EqualKVs(a []MKV, keys [][]byte, vals [][]byte, revs []uint64) bool {
	if len(a) != len(keys) {
		return false
	}
	for i := range a {
		if a[i].Key != string(keys[i]) || !bytes.Equal(a[i].Val, vals[i]) || a[i].Rev != revs[i] {
			return false
		}
	}
	return true
}
