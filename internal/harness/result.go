package harness

import (
	"crypto/sha1"
	"encoding/hex"
	"encoding/json"
	"fmt"
	"math/rand"
	"os"
	"strings"
	"sync"
)

// Violation is one observed refutation of a property.
type Violation struct {
	Sig     string      `json:"sig"`    // narrow structured signature: class + discriminating input
	Detail  string      `json:"detail"` // human-readable account of the failing history
	Witness interface{} `json:"witness,omitempty"`
}

// Result is the verdict of one case. Verdicts are three-valued.
type Result struct {
	Case         int                 `json:"case"`
	Name         string              `json:"name"`
	Verdict      string              `json:"verdict"` // held | violated | inconclusive
	Violations   []Violation         `json:"violations,omitempty"`
	Inconclusive string              `json:"inconclusive,omitempty"`
	Nontrivial   bool                `json:"nontrivial"`
	Fingerprint  string              `json:"fingerprint,omitempty"`
	Stats        map[string]int64    `json:"stats,omitempty"`
	Sample       interface{}         `json:"sample,omitempty"`
	Sets         map[string][]string `json:"sets,omitempty"` // named sets whose union is reported in evidence
	// Fingerprints: for cases that enumerate many executions (fault positions), one fingerprint per
	// distinct non-trivial execution; Evals is the number of executions the case performed.
	Fingerprints []string `json:"fingerprints,omitempty"`
	Evals        int64    `json:"evals,omitempty"`
}

// Case is the context handed to a property's case function.
type Case struct {
	Prop  string
	Tier  string
	Seed  int64
	Index int
	Rng   *rand.Rand
	R     *Result
	mu    sync.Mutex
	// starved: the engine reported itself unavailable (see Violate); later mismatches of the case are not judged
	starved bool
}

const engineStarved = "start timestamp may fall behind safe point"

// NewCase builds the case context; all randomness derives from (seed, property, index).
func NewCase(prop, tier string, seed int64, index int) *Case {
	h := sha1.Sum([]byte(fmt.Sprintf("%s/%d/%d", prop, seed, index)))
	s := int64(0)
	for i := 0; i < 8; i++ {
		s = s<<8 | int64(h[i])
	}
	return &Case{Prop: prop, Tier: tier, Seed: seed, Index: index, Rng: rand.New(rand.NewSource(s)),
		R: &Result{Case: index, Verdict: "held", Stats: map[string]int64{}, Sets: map[string][]string{}}}
}

// Violate records a violation.
func (c *Case) Violate(sig, detail string, witness interface{}) {
	c.mu.Lock()
	defer c.mu.Unlock()
	if strings.Contains(detail, engineStarved) {
		// The TiKV client refuses every transaction when its cached GC safe point is older than 99 s; its refresher
		// runs every 10 s, so this only happens when the worker process was starved or frozen for that long (seen once
		// in a thorough sweep run next to ten other jobs). It is the engine reporting itself unavailable, which no
		// property forbids: whatever followed says nothing about kubebrain.
		if c.R.Verdict != "violated" {
			c.R.Verdict = "inconclusive"
		}
		if c.R.Inconclusive == "" {
			c.R.Inconclusive = "engine unavailable: TiKV mock safe-point cache went stale (process starved >99 s)"
		}
		c.starved = true
		return
	}
	if c.starved {
		return // consequences of the engine outage above
	}
	same := 0
	for _, v := range c.R.Violations {
		if v.Sig == sig {
			same++
		}
	}
	// keep at most 2 per signature so that a repeated (possibly known) finding cannot crowd out a different one
	if same < 2 && len(c.R.Violations) < 40 {
		c.R.Violations = append(c.R.Violations, Violation{Sig: sig, Detail: detail, Witness: witness})
	}
	c.R.Verdict = "violated"
}

// Violatef records a violation with a formatted detail.
func (c *Case) Violatef(sig string, witness interface{}, format string, a ...interface{}) {
	c.Violate(sig, fmt.Sprintf(format, a...), witness)
}

// Inconclusive marks the case inconclusive unless it is already violated.
func (c *Case) Inconclusive(why string) {
	c.mu.Lock()
	defer c.mu.Unlock()
	if c.R.Verdict != "violated" {
		c.R.Verdict = "inconclusive"
	}
	if c.R.Inconclusive == "" {
		c.R.Inconclusive = why
	}
}

// Stat adds to a named counter.
func (c *Case) Stat(name string, d int64) {
	c.mu.Lock()
	c.R.Stats[name] += d
	c.mu.Unlock()
}

// AddSet adds a member to a named set.
func (c *Case) AddSet(name, member string) {
	c.mu.Lock()
	defer c.mu.Unlock()
	for _, m := range c.R.Sets[name] {
		if m == member {
			return
		}
	}
	if len(c.R.Sets[name]) < 400 {
		c.R.Sets[name] = append(c.R.Sets[name], member)
	}
}

// Fingerprint sets the distinctness fingerprint from arbitrary parts and marks the case non-trivial if nt.
func (c *Case) Fingerprint(nt bool, parts ...interface{}) {
	b, _ := json.Marshal(parts)
	h := sha1.Sum(b)
	c.mu.Lock()
	c.R.Fingerprint = hex.EncodeToString(h[:10])
	c.R.Nontrivial = nt
	c.mu.Unlock()
}

// AddExecution counts one enumerated execution; fp != "" marks it non-trivial with that identity.
func (c *Case) AddExecution(fp string) {
	c.mu.Lock()
	c.R.Evals++
	if fp != "" {
		c.R.Fingerprints = append(c.R.Fingerprints, fp)
	}
	c.mu.Unlock()
}

// Emitter writes the JSONL stream the driver reads.
type Emitter struct {
	mu sync.Mutex
	f  *os.File
}

// NewEmitter opens path for appending.
func NewEmitter(path string) (*Emitter, error) {
	f, err := os.OpenFile(path, os.O_CREATE|os.O_WRONLY|os.O_APPEND, 0644)
	if err != nil {
		return nil, err
	}
	return &Emitter{f: f}, nil
}

// Emit writes one JSON line and syncs.
func (e *Emitter) Emit(v interface{}) {
	b, err := json.Marshal(v)
	if err != nil {
		b, _ = json.Marshal(map[string]string{"marshal_error": err.Error()})
	}
	e.mu.Lock()
	e.f.Write(append(b, '\n'))
	e.mu.Unlock()
}

// B64 renders bytes for witnesses: printable as-is, otherwise quoted.
func B64(b []byte) string { return fmt.Sprintf("%q", b) }
