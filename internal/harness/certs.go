package harness

import (
	"crypto/ecdsa"
	"crypto/elliptic"
	"crypto/rand"
	"crypto/x509"
	"crypto/x509/pkix"
	"encoding/pem"
	"io/ioutil"
	"math/big"
	"net"
	"os"
	"path/filepath"
	"time"
)

// CertSet is a throw-away CA plus one node certificate for 127.0.0.1 (server and client use), written as PEM files.
type CertSet struct {
	Dir, CA, Cert, Key string
}

// NewCertSet creates the files under dir.
func NewCertSet(dir string) (*CertSet, error) {
	if err := os.MkdirAll(dir, 0755); err != nil {
		return nil, err
	}
	caKey, err := ecdsa.GenerateKey(elliptic.P256(), rand.Reader)
	if err != nil {
		return nil, err
	}
	caTmpl := &x509.Certificate{SerialNumber: big.NewInt(1), Subject: pkix.Name{CommonName: "verif-ca"}, NotBefore: time.Now().Add(-time.Hour),
		NotAfter: time.Now().Add(24 * time.Hour), IsCA: true, KeyUsage: x509.KeyUsageCertSign | x509.KeyUsageDigitalSignature, BasicConstraintsValid: true}
	caDER, err := x509.CreateCertificate(rand.Reader, caTmpl, caTmpl, &caKey.PublicKey, caKey)
	if err != nil {
		return nil, err
	}
	caCert, _ := x509.ParseCertificate(caDER)
	key, err := ecdsa.GenerateKey(elliptic.P256(), rand.Reader)
	if err != nil {
		return nil, err
	}
	tmpl := &x509.Certificate{SerialNumber: big.NewInt(2), Subject: pkix.Name{CommonName: "127.0.0.1"}, NotBefore: time.Now().Add(-time.Hour),
		NotAfter: time.Now().Add(24 * time.Hour), KeyUsage: x509.KeyUsageDigitalSignature | x509.KeyUsageKeyEncipherment,
		ExtKeyUsage: []x509.ExtKeyUsage{x509.ExtKeyUsageServerAuth, x509.ExtKeyUsageClientAuth}, IPAddresses: []net.IP{net.ParseIP("127.0.0.1")}, DNSNames: []string{"localhost"}}
	der, err := x509.CreateCertificate(rand.Reader, tmpl, caCert, &key.PublicKey, caKey)
	if err != nil {
		return nil, err
	}
	keyDER, err := x509.MarshalECPrivateKey(key)
	if err != nil {
		return nil, err
	}
	cs := &CertSet{Dir: dir, CA: filepath.Join(dir, "ca.pem"), Cert: filepath.Join(dir, "node.pem"), Key: filepath.Join(dir, "node-key.pem")}
	if err := ioutil.WriteFile(cs.CA, pem.EncodeToMemory(&pem.Block{Type: "CERTIFICATE", Bytes: caDER}), 0644); err != nil {
		return nil, err
	}
	if err := ioutil.WriteFile(cs.Cert, pem.EncodeToMemory(&pem.Block{Type: "CERTIFICATE", Bytes: der}), 0644); err != nil {
		return nil, err
	}
	if err := ioutil.WriteFile(cs.Key, pem.EncodeToMemory(&pem.Block{Type: "EC PRIVATE KEY", Bytes: keyDER}), 0600); err != nil {
		return nil, err
	}
	return cs, nil
}
