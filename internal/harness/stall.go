package harness

import (
	"regexp"
	"runtime"
	"strconv"
	"strings"
	"sync"
	"sync/atomic"
	"time"
)

// Stall decides "no request returns any more" without treating slowness as a fault. Client goroutines register
// themselves and tick after every finished operation. The verdict "stalled" needs, over stallSamples consecutive
// looks stallGap apart: (1) not a single operation finished, (2) every registered client goroutine is parked on a
// synchronisation primitive (mutex, semaphore, channel, condition) - none of them is running, runnable or in a
// system call, so none of them is waiting for a CPU - and (3) each of them is parked at exactly the same place
// (same stack) as at the previous look. A busy or slow machine fails (2); a slow engine fails (1) or (3).
type Stall struct {
	mu       sync.Mutex
	ids      map[int64]bool
	progress int64
}

const (
	stallSamples = 5
	stallGap     = 3 * time.Second
)

var goroutineHdr = regexp.MustCompile(`^goroutine (\d+) \[([^\],]+)`)

func goid() int64 {
	buf := make([]byte, 64)
	buf = buf[:runtime.Stack(buf, false)]
	m := goroutineHdr.FindSubmatch(buf)
	if m == nil {
		return -1
	}
	id, _ := strconv.ParseInt(string(m[1]), 10, 64)
	return id
}

// NewStall builds a monitor.
func NewStall() *Stall { return &Stall{ids: map[int64]bool{}} }

// Enter registers the calling goroutine as a client; call the returned func when it is done.
func (s *Stall) Enter() func() {
	id := goid()
	s.mu.Lock()
	s.ids[id] = true
	s.mu.Unlock()
	return func() {
		s.mu.Lock()
		delete(s.ids, id)
		s.mu.Unlock()
	}
}

// Tick records that an operation finished.
func (s *Stall) Tick() { atomic.AddInt64(&s.progress, 1) }

var parkedStates = map[string]bool{"semacquire": true, "sync.Mutex.Lock": true, "sync.RWMutex.RLock": true, "sync.RWMutex.Lock": true,
	"chan receive": true, "chan send": true, "select": true, "sync.Cond.Wait": true, "sync.WaitGroup.Wait": true}

// look returns, for the registered goroutines, id -> stack text, and whether all of them are parked.
func (s *Stall) look() (stacks map[int64]string, allParked bool, dump string) {
	buf := make([]byte, 8<<20)
	buf = buf[:runtime.Stack(buf, true)]
	dump = string(buf)
	s.mu.Lock()
	ids := map[int64]bool{}
	for id := range s.ids {
		ids[id] = true
	}
	s.mu.Unlock()
	stacks = map[int64]string{}
	allParked = len(ids) > 0
	for _, blk := range strings.Split(dump, "\n\n") {
		first := blk
		if i := strings.IndexByte(blk, '\n'); i >= 0 {
			first = blk[:i]
		}
		m := goroutineHdr.FindStringSubmatch(first)
		if m == nil {
			continue
		}
		id, _ := strconv.ParseInt(m[1], 10, 64)
		if !ids[id] {
			continue
		}
		if !parkedStates[m[2]] {
			allParked = false
		}
		body := ""
		if i := strings.IndexByte(blk, '\n'); i >= 0 {
			body = blk[i+1:]
		}
		stacks[id] = body
	}
	if len(stacks) != len(ids) {
		allParked = false
	}
	return stacks, allParked, dump
}

// Watch returns when done is closed (stalled=false) or when the stall verdict is reached (with the goroutine dump).
func (s *Stall) Watch(done <-chan struct{}) (stalled bool, dump string) {
	good := 0
	var prev map[int64]string
	prevProgress := int64(-1)
	for {
		select {
		case <-done:
			return false, ""
		case <-time.After(stallGap):
		}
		p := atomic.LoadInt64(&s.progress)
		stacks, parked, d := s.look()
		same := prev != nil && len(prev) == len(stacks) && p == prevProgress
		if same {
			for id, st := range stacks {
				if prev[id] != st {
					same = false
					break
				}
			}
		}
		if parked && same {
			good++
		} else if parked {
			good = 1
		} else {
			good = 0
		}
		prev, prevProgress = stacks, p
		if good >= stallSamples {
			return true, d
		}
	}
}

// TrimDump keeps the goroutines of a dump whose stacks mention any of the substrings (at most max of them).
func TrimDump(dump string, max int, subs ...string) []string {
	var out []string
	for _, blk := range strings.Split(dump, "\n\n") {
		for _, sub := range subs {
			if strings.Contains(blk, sub) {
				lines := strings.Split(blk, "\n")
				if len(lines) > 14 {
					lines = lines[:14]
				}
				out = append(out, strings.Join(lines, "\n"))
				break
			}
		}
		if len(out) >= max {
			break
		}
	}
	return out
}
