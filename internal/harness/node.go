package harness

import (
	"context"
	"fmt"
	"runtime"
	"sort"
	"sync"
	"sync/atomic"
	"time"

	proto "github.com/kubewharf/kubebrain-client/api/v2rpc"

	"github.com/kubewharf/kubebrain/pkg/backend"
	"github.com/kubewharf/kubebrain/pkg/storage"
)

// Prefix is the key prefix every workload configures.
const Prefix = "/registry"

var (
	hookOnce sync.Once
	owners   sync.Map // owner -> *Node
)

func installHooks() {
	hookOnce.Do(func() {
		backend.VerifSetCallback(func(owner interface{}, name string, arg uint64) {
			if n, ok := owners.Load(owner); ok {
				n.(*Node).handle(name, arg)
			}
		})
	})
}

// NodeOpts configures NewNode.
type NodeOpts struct {
	KV           storage.KvStorage // what the backend is given (engine, possibly wrapped)
	StartRev     uint64            // initial revision (SetCurrentRevision), default 1000
	Config       backend.Config    // Prefix/Identity defaulted
	Metrics      *RecMetrics       // default: recording, not forwarding
	NoIdleYield  bool              // leave the sequencer busy-spinning as in production
	SkipInit     bool              // do not call SetCurrentRevision (the workload performs the election itself)
	EmptyPrefix  bool              // keep Config.Prefix == "" (the --key-prefix default) instead of the harness prefix
	TrackNotify  bool              // record every notify deposit (C04 conservation)
	PointHandler func(name string, arg uint64)
}

// Node is one kubebrain backend under observation.
type Node struct {
	B       backend.Backend
	KV      storage.KvStorage
	Metrics *RecMetrics
	Start   uint64

	bo, ho      interface{}
	retired     int32
	noIdle      bool
	track       bool
	point       atomic.Value // func(string,uint64)
	mu          sync.Mutex
	deposits    map[uint64]int
	dropped     int64
	idleCalls   int64
	pointCounts sync.Map // name -> *int64
}

var identSeq int64

// NewNode builds a backend through the public constructor and registers it with the hook dispatcher.
func NewNode(o NodeOpts) *Node {
	installHooks()
	if o.StartRev == 0 {
		o.StartRev = 1000
	}
	if o.Config.Prefix == "" && !o.EmptyPrefix {
		o.Config.Prefix = Prefix
	}
	if o.Config.Identity == "" {
		o.Config.Identity = fmt.Sprintf("node-%d", atomic.AddInt64(&identSeq, 1))
	}
	if o.Metrics == nil {
		o.Metrics = NewRecMetrics(false)
	}
	n := &Node{KV: o.KV, Metrics: o.Metrics, Start: o.StartRev, noIdle: o.NoIdleYield, track: o.TrackNotify,
		deposits: map[uint64]int{}}
	if o.PointHandler != nil {
		n.point.Store(o.PointHandler)
	}
	// the sequencer goroutine starts inside NewBackend and may reach seq.idle before the owners are
	// known; those early calls find no node and return, which is the production behaviour.
	b := backend.NewBackend(o.KV, o.Config, o.Metrics)
	n.B = b
	n.bo, n.ho = backend.VerifOwners(b)
	owners.Store(n.bo, n)
	owners.Store(n.ho, n)
	if !o.SkipInit {
		b.SetCurrentRevision(o.StartRev)
	} else {
		n.Start = 0
	}
	return n
}

// SetPointHandler installs the handler for placement points (everything except seq.idle/notify).
func (n *Node) SetPointHandler(f func(name string, arg uint64)) { n.point.Store(f) }

func (n *Node) handle(name string, arg uint64) {
	switch name {
	case "seq.idle":
		if atomic.LoadInt32(&n.retired) == 1 {
			select {} // a retired backend's sequencer is parked for good
		}
		atomic.AddInt64(&n.idleCalls, 1)
		if !n.noIdle {
			time.Sleep(20 * time.Microsecond)
		}
		return
	case "notify":
		if n.track {
			n.mu.Lock()
			n.deposits[arg]++
			n.mu.Unlock()
		}
	case "notify.dropped":
		atomic.AddInt64(&n.dropped, 1)
	}
	c, _ := n.pointCounts.LoadOrStore(name, new(int64))
	atomic.AddInt64(c.(*int64), 1)
	if f, ok := n.point.Load().(func(string, uint64)); ok && f != nil {
		f(name, arg)
	}
}

// PointCount returns how often a hook point was reached.
func (n *Node) PointCount(name string) int64 {
	if c, ok := n.pointCounts.Load(name); ok {
		return atomic.LoadInt64(c.(*int64))
	}
	return 0
}

// Retire parks the sequencer goroutine of this backend (it can never be stopped otherwise).
func (n *Node) Retire() {
	atomic.StoreInt32(&n.retired, 1)
	n.point.Store(func(string, uint64) {})
}

// Committed returns the read revision.
func (n *Node) Committed() uint64 { return n.B.GetCurrentRevision() }

// Dealt returns the highest revision handed out.
func (n *Node) Dealt() uint64 {
	_, d := backend.VerifSequencerState(n.B)
	return d
}

// RetryQueueLen returns the number of unresolved uncertain operations.
func (n *Node) RetryQueueLen() int { return backend.VerifRetryQueueLen(n.B) }

// WaitCommitted waits until the read revision reaches rev; false on watchdog expiry.
func (n *Node) WaitCommitted(rev uint64, d time.Duration) bool {
	deadline := time.Now().Add(d)
	for i := 0; ; i++ {
		if n.Committed() >= rev {
			return true
		}
		if time.Now().After(deadline) {
			return false
		}
		if i < 50 {
			runtime.Gosched()
		} else {
			time.Sleep(50 * time.Microsecond)
		}
	}
}

// CommittedOrSkipped waits until the read revision reaches rev. Call it only when every revision up to rev has been
// deposited (every client call has returned, Conservation reports nothing missing). It counts the sequencer's own
// steps instead of time: each call of the seq.idle hook is one pass in which the sequencer looked at the slot of
// (read revision + 1) and found it empty. If that happens `polls` times in a row while the read revision stands
// still below rev, the deposit of that slot is gone for good - skipped=true, decided without a clock. If the
// sequencer does not even poll, the watchdog d ends the wait (both false).
func (n *Node) CommittedOrSkipped(rev uint64, polls int64, d time.Duration) (reached, skipped bool) {
	deadline := time.Now().Add(d)
	last := n.Committed()
	base := atomic.LoadInt64(&n.idleCalls)
	for i := 0; ; i++ {
		cur := n.Committed()
		if cur >= rev {
			return true, false
		}
		if cur != last {
			last, base = cur, atomic.LoadInt64(&n.idleCalls)
		} else if atomic.LoadInt64(&n.idleCalls)-base >= polls {
			return false, true
		}
		if time.Now().After(deadline) {
			return false, false
		}
		if i < 50 {
			runtime.Gosched()
		} else {
			time.Sleep(50 * time.Microsecond)
		}
	}
}

// Conservation compares the revisions deposited through notify with the interval (start, dealt].
// Call only when every client call has returned and the retry queue is empty.
func (n *Node) Conservation() (missing []uint64, dup []uint64, dealt uint64, dropped int64) {
	dealt = n.Dealt()
	n.mu.Lock()
	defer n.mu.Unlock()
	for r := n.Start + 1; r <= dealt; r++ {
		switch c := n.deposits[r]; {
		case c == 0:
			missing = append(missing, r)
		case c > 1:
			dup = append(dup, r)
		}
	}
	for r := range n.deposits {
		if r <= n.Start || r > dealt {
			dup = append(dup, r)
		}
	}
	sort.Slice(dup, func(i, j int) bool { return dup[i] < dup[j] })
	return missing, dup, dealt, atomic.LoadInt64(&n.dropped)
}

// ---- thin client helpers over the public Backend API ----

// Ctx is the context workloads use (no deadline unless a deadline is the point).
var Ctx = context.Background()

// Create calls Backend.Create.
func (n *Node) Create(key string, val []byte) (*proto.CreateResponse, error) {
	return n.B.Create(Ctx, &proto.CreateRequest{Key: []byte(key), Value: val})
}

// Update calls Backend.Update with expected revision rev.
func (n *Node) Update(key string, val []byte, rev uint64) (*proto.UpdateResponse, error) {
	return n.B.Update(Ctx, &proto.UpdateRequest{Kv: &proto.KeyValue{Key: []byte(key), Value: val, Revision: rev}})
}

// Delete calls Backend.Delete with expected revision rev (0 = unguarded).
func (n *Node) Delete(key string, rev uint64) (*proto.DeleteResponse, error) {
	return n.B.Delete(Ctx, &proto.DeleteRequest{Key: []byte(key), Revision: rev})
}

// Get calls Backend.Get.
func (n *Node) Get(key string, rev uint64) (*proto.GetResponse, error) {
	return n.B.Get(Ctx, &proto.GetRequest{Key: []byte(key), Revision: rev})
}

// List calls Backend.List.
func (n *Node) List(start, end string, rev uint64, limit int64) (*proto.RangeResponse, error) {
	return n.B.List(Ctx, &proto.RangeRequest{Key: []byte(start), End: []byte(end), Revision: rev, Limit: limit})
}
