package harness

import (
	"context"
	"errors"
	"sync/atomic"
	"time"

	"github.com/kubewharf/kubebrain/pkg/backend/coder"
	"github.com/kubewharf/kubebrain/pkg/storage"
)

// BatchOp is one buffered operation of a write batch.
type BatchOp struct {
	Kind string // pine (put-if-not-exist) | cas | put | del | delcur
	Key  []byte
	Val  []byte
	Old  []byte
	TTL  int64
	Iter storage.Iter
}

// BatchInfo describes a batch reaching the storage boundary.
type BatchInfo struct {
	Seq     int64
	Ops     []BatchOp
	Applied bool   // the inner commit was attempted and returned nil
	Inner   error  // what the engine answered (nil if not attempted)
	Tag     string // free for the fault layer (set in Decide, read in AfterCommit)
}

// Decision is what the fault layer does with a batch.
type Decision int

// Decisions
const (
	Pass Decision = iota
	FailDefinite
	UncertainApplied
	UncertainNotApplied
)

// ErrInjected is the definite storage error injected by the fault layer.
var ErrInjected = errors.New("injected storage error")

var coderInst = coder.NewNormalCoder()

// Write decodes a backend write batch (index op + version put). ok=false for other batches.
func (b *BatchInfo) Write() (raw []byte, rev uint64, val []byte, ok bool) {
	if len(b.Ops) != 2 || b.Ops[1].Kind != "put" || (b.Ops[0].Kind != "pine" && b.Ops[0].Kind != "cas") {
		return nil, 0, nil, false
	}
	k := b.Ops[1].Key
	if len(k) < 4+9 {
		return nil, 0, nil, false
	}
	raw, rev, err := coderInst.Decode(k)
	if err != nil || rev == 0 {
		return nil, 0, nil, false
	}
	return raw, rev, b.Ops[1].Val, true
}

// Wrap is a storage.KvStorage decorator written purely against the public interface. All callbacks
// are optional and must be set before the wrapper is used.
type Wrap struct {
	storage.KvStorage

	// UncertainErr, when set, builds the error an injected unknown outcome is answered with (it must satisfy
	// errors.Is(err, storage.ErrUncertainResult), which is all the engine contract says about such an answer)
	UncertainErr func(*BatchInfo) error

	BeforeCommit func(*BatchInfo)
	Decide       func(*BatchInfo) Decision
	AfterCommit  func(b *BatchInfo, returned error)
	// DelFault is consulted before a store-level Del ("del") or DelCurrent ("delcur"); a non-nil
	// error is returned to the caller and the delete is not performed.
	DelFault   func(kind string, key []byte) error
	AfterDel   func(kind string, key []byte, err error)
	Partitions func(start, end []byte) ([]storage.Partition, bool)
	NoTTL      bool
	// IterFault, if set, is asked before every Next of every iterator (n = number of Next calls made on that
	// iterator so far); a non-nil error is returned to the caller instead of advancing.
	IterFault func(start, end []byte, n int) error
	// AfterGet, if set, is called after every point read returned (the caller is a goroutine of the system under test:
	// blocking here is a descheduled reader that has its value in hand).
	AfterGet func(key, val []byte, err error)
	// EagerBegin begins the engine's batch when the caller begins its batch instead of at Commit (set on memkv, whose
	// BeginBatchWrite takes the store mutex until Commit: an abandoned batch then wedges the store as it does in production)
	EagerBegin bool
	// BeforeInnerCommit, if set, is called after a batch's operations were added to the engine's batch and before that
	// batch is committed. Must not be used on memkv, whose open batch holds the store mutex.
	BeforeInnerCommit func(ops []BatchOp)
	// GetFault, if set, is asked before every point read; a non-nil error is returned instead of reading
	GetFault func(key []byte) error
	// OracleFault, if set, is asked before every GetTimestampOracle; a non-nil error is returned instead (a PD outage)
	OracleFault func() error

	seq int64
}

// NewWrap wraps inner.
func NewWrap(inner storage.KvStorage) *Wrap { return &Wrap{KvStorage: inner} }

// SupportTTL implements storage.KvStorage
func (w *Wrap) SupportTTL() bool {
	if w.NoTTL {
		return false
	}
	return w.KvStorage.SupportTTL()
}

// GetPartitions implements storage.KvStorage
func (w *Wrap) GetPartitions(ctx context.Context, start, end []byte) ([]storage.Partition, error) {
	if w.Partitions != nil {
		if ps, ok := w.Partitions(start, end); ok {
			return ps, nil
		}
	}
	return w.KvStorage.GetPartitions(ctx, start, end)
}

// GetTimestampOracle implements storage.KvStorage
func (w *Wrap) GetTimestampOracle(ctx context.Context) (uint64, error) {
	if f := w.OracleFault; f != nil {
		if err := f(); err != nil {
			return 0, err
		}
	}
	return w.KvStorage.GetTimestampOracle(ctx)
}

// Get implements storage.KvStorage
func (w *Wrap) Get(ctx context.Context, key []byte) ([]byte, error) {
	if f := w.GetFault; f != nil {
		if ferr := f(key); ferr != nil {
			return nil, ferr
		}
	}
	val, err := w.KvStorage.Get(ctx, key)
	if f := w.AfterGet; f != nil {
		f(key, val, err)
	}
	return val, err
}

// Del implements storage.KvStorage
func (w *Wrap) Del(ctx context.Context, key []byte) (err error) {
	if w.DelFault != nil {
		if err = w.DelFault("del", key); err != nil {
			if w.AfterDel != nil {
				w.AfterDel("del", key, err)
			}
			return err
		}
	}
	err = w.KvStorage.Del(ctx, key)
	if w.AfterDel != nil {
		w.AfterDel("del", key, err)
	}
	return err
}

// Iter implements storage.KvStorage (iterators are wrapped only when iterator faults are configured)
func (w *Wrap) Iter(ctx context.Context, start []byte, end []byte, timestamp uint64, limit uint64) (storage.Iter, error) {
	it, err := w.KvStorage.Iter(ctx, start, end, timestamp, limit)
	if err != nil || w.IterFault == nil {
		return it, err
	}
	return &wrapIter{Iter: it, w: w, start: cp(start), end: cp(end)}, nil
}

type wrapIter struct {
	storage.Iter
	w          *Wrap
	start, end []byte
	n          int
}

func (i *wrapIter) Next(ctx context.Context) error {
	if f := i.w.IterFault; f != nil {
		if err := f(i.start, i.end, i.n); err != nil {
			i.n++
			return err
		}
	}
	i.n++
	return i.Iter.Next(ctx)
}

func unwrapIter(it storage.Iter) storage.Iter {
	if wi, ok := it.(*wrapIter); ok {
		return wi.Iter
	}
	return it
}

// DelCurrent implements storage.KvStorage
func (w *Wrap) DelCurrent(ctx context.Context, it storage.Iter) (err error) {
	it = unwrapIter(it)
	key := append([]byte(nil), it.Key()...)
	if w.DelFault != nil {
		if err = w.DelFault("delcur", key); err != nil {
			if w.AfterDel != nil {
				w.AfterDel("delcur", key, err)
			}
			return err
		}
	}
	err = w.KvStorage.DelCurrent(ctx, it)
	if w.AfterDel != nil {
		w.AfterDel("delcur", key, err)
	}
	return err
}

// BeginBatchWrite implements storage.KvStorage. The inner batch is created only at Commit because
// memkv takes its store mutex in BeginBatchWrite.
func (w *Wrap) BeginBatchWrite() storage.BatchWrite {
	b := &wrapBatch{w: w}
	if w.EagerBegin {
		// an engine may take a lock when a batch begins and hold it until Commit (memkv does): the engine's batch is
		// begun when the caller begins it, so a batch the caller abandons keeps what the engine's batch keeps
		b.eager = w.KvStorage.BeginBatchWrite()
	}
	return b
}

type wrapBatch struct {
	w     *Wrap
	ops   []BatchOp
	eager storage.BatchWrite
}

func cp(b []byte) []byte {
	if b == nil {
		return nil
	}
	return append([]byte{}, b...)
}

func (b *wrapBatch) PutIfNotExist(key []byte, val []byte, ttl int64) {
	b.ops = append(b.ops, BatchOp{Kind: "pine", Key: cp(key), Val: cp(val), TTL: ttl})
}
func (b *wrapBatch) CAS(key []byte, newVal []byte, oldVal []byte, ttl int64) {
	b.ops = append(b.ops, BatchOp{Kind: "cas", Key: cp(key), Val: cp(newVal), Old: cp(oldVal), TTL: ttl})
}
func (b *wrapBatch) Put(key []byte, val []byte, ttl int64) {
	b.ops = append(b.ops, BatchOp{Kind: "put", Key: cp(key), Val: cp(val), TTL: ttl})
}
func (b *wrapBatch) Del(key []byte) {
	b.ops = append(b.ops, BatchOp{Kind: "del", Key: cp(key)})
}
func (b *wrapBatch) DelCurrent(it storage.Iter) {
	it = unwrapIter(it)
	b.ops = append(b.ops, BatchOp{Kind: "delcur", Key: cp(it.Key()), Iter: it})
}

func (b *wrapBatch) inner() storage.BatchWrite {
	ib := b.eager
	if ib == nil {
		ib = b.w.KvStorage.BeginBatchWrite()
	}
	b.eager = nil
	for _, op := range b.ops {
		if b.w.NoTTL {
			op.TTL = 0 // an engine without native TTL ignores the argument
		}
		switch op.Kind {
		case "pine":
			ib.PutIfNotExist(op.Key, op.Val, op.TTL)
		case "cas":
			ib.CAS(op.Key, op.Val, op.Old, op.TTL)
		case "put":
			ib.Put(op.Key, op.Val, op.TTL)
		case "del":
			ib.Del(op.Key)
		case "delcur":
			ib.DelCurrent(op.Iter)
		}
	}
	if f := b.w.BeforeInnerCommit; f != nil {
		// the operations have been handed to the engine's batch (engines that evaluate a condition when it is added
		// have read by now); the commit follows - a caller may be descheduled in between
		f(b.ops)
	}
	return ib
}

func (b *wrapBatch) Commit(ctx context.Context) error {
	info := &BatchInfo{Seq: atomic.AddInt64(&b.w.seq, 1), Ops: b.ops}
	if b.w.BeforeCommit != nil {
		b.w.BeforeCommit(info)
	}
	d := Pass
	if b.w.Decide != nil {
		d = b.w.Decide(info)
	}
	var ret error
	switch d {
	case Pass:
		info.Inner = b.inner().Commit(ctx)
		info.Applied = info.Inner == nil
		ret = info.Inner
	case FailDefinite:
		ret = ErrInjected
	case UncertainApplied:
		info.Inner = b.inner().Commit(ctx)
		info.Applied = info.Inner == nil
		ret = b.w.uncertain(info)
	case UncertainNotApplied:
		ret = b.w.uncertain(info)
	}
	if b.eager != nil {
		// the injected outcome keeps the operations from the engine; the caller did commit, so the engine's batch ends too
		b.eager.Commit(ctx)
		b.eager = nil
	}
	if b.w.AfterCommit != nil {
		b.w.AfterCommit(info, ret)
	}
	return ret
}

func (w *Wrap) uncertain(info *BatchInfo) error {
	if w.UncertainErr != nil {
		return w.UncertainErr(info)
	}
	return storage.NewErrUncertainResult(errors.New("injected unknown outcome"))
}

// SlowUncertain is an unknown-outcome answer whose classification takes time: every errors.Is(err,
// storage.ErrUncertainResult) on it deschedules the caller for Delay first. The node classifies the answer in the
// request path and again in the sequencer, right where the revision is published and queued for repair, so the
// delay stands for a preemption of the sequencer goroutine between those steps.
type SlowUncertain struct {
	Delay time.Duration
	Calls *int64
}

func (e *SlowUncertain) Error() string { return "uncertain error: injected unknown outcome (slow)" }

func (e *SlowUncertain) Is(target error) bool {
	if target != storage.ErrUncertainResult {
		return false
	}
	if e.Calls != nil {
		atomic.AddInt64(e.Calls, 1)
	}
	time.Sleep(e.Delay)
	return true
}

// DumpKV is one raw engine record.
type DumpKV struct {
	Key []byte
	Val []byte
}

// Dump returns every engine record in [start, end) through KvStorage.Iter.
func Dump(kv storage.KvStorage, start, end []byte) ([]DumpKV, error) {
	ctx := context.Background()
	it, err := kv.Iter(ctx, start, end, 0, 0)
	if err != nil {
		return nil, err
	}
	defer it.Close()
	var out []DumpKV
	for {
		err = it.Next(ctx)
		if err != nil {
			break
		}
		out = append(out, DumpKV{Key: cp(it.Key()), Val: cp(it.Val())})
	}
	return out, nil
}
