// Package harness holds the pieces shared by every property workload: engines, storage wrappers,
// metrics decorators, the hook dispatcher, the history recorder and the result protocol.
package harness

import (
	"fmt"
	"io/ioutil"
	"os"
	"strings"
	"sync"

	"github.com/tikv/client-go/v2/testutils"
	"github.com/tikv/client-go/v2/tikv"

	"github.com/kubewharf/kubebrain/pkg/storage"
	ibadger "github.com/kubewharf/kubebrain/pkg/storage/badger"
	imemkv "github.com/kubewharf/kubebrain/pkg/storage/memkv"
	imetrics "github.com/kubewharf/kubebrain/pkg/storage/metrics"
	itikv "github.com/kubewharf/kubebrain/pkg/storage/tikv"
)

// ScratchRoot is where Badger directories live; set by the worker from --scratch.
var ScratchRoot = os.TempDir()

// Engine is a raw storage engine plus what is needed to dispose of it.
type Engine struct {
	Kind    string // memkv | badger | tikv
	KV      storage.KvStorage
	Dir     string // badger only
	closeFn func()
	once    sync.Once
}

// Close closes the engine and removes its files.
func (e *Engine) Close() {
	e.once.Do(func() {
		if e.closeFn != nil {
			e.closeFn()
		}
	})
}

// EngineKinds is the list of base engines.
var EngineKinds = []string{"memkv", "badger", "tikv"}

// NewEngine builds a fresh engine. kind may carry the suffix "+m" which the caller handles with WithMetrics.
// splitKeys pre-splits the TiKV mock cluster into regions at those keys (ignored by other engines).
func NewEngine(kind string, splitKeys ...[]byte) (*Engine, error) {
	kind = strings.TrimSuffix(kind, "+m")
	switch kind {
	case "memkv":
		return &Engine{Kind: kind, KV: imemkv.NewKvStorage()}, nil
	case "badger":
		dir, err := ioutil.TempDir(ScratchRoot, "badger")
		if err != nil {
			return nil, err
		}
		return OpenBadger(dir, true)
	case "tikv":
		rpcClient, cluster, pdClient, err := testutils.NewMockTiKV("", nil)
		if err != nil {
			return nil, err
		}
		testutils.BootstrapWithMultiRegions(cluster, splitKeys...)
		st, err := tikv.NewTestTiKVStore(rpcClient, pdClient, nil, nil, 0)
		if err != nil {
			return nil, err
		}
		kv := itikv.NewKvStoreWithStorage([]*tikv.KVStore{st})
		return &Engine{Kind: kind, KV: kv, closeFn: func() { _ = kv.Close() }}, nil
	}
	return nil, fmt.Errorf("unknown engine %q", kind)
}

// OpenBadger opens (or re-opens) a Badger directory.
func OpenBadger(dir string, removeOnClose bool) (*Engine, error) {
	kv, err := ibadger.NewKvStorage(ibadger.Config{Dir: dir})
	if err != nil {
		return nil, err
	}
	return &Engine{Kind: "badger", KV: kv, Dir: dir, closeFn: func() {
		_ = kv.Close()
		if removeOnClose {
			_ = os.RemoveAll(dir)
		}
	}}, nil
}

// WithMetrics puts the production storage metrics wrapper (pkg/storage/metrics) in front of kv,
// emitting into m.
func WithMetrics(kv storage.KvStorage, m *RecMetrics) storage.KvStorage {
	return imetrics.NewKvStorage(kv, m)
}

// IsMetricsKind tells whether an engine kind name asks for the metrics wrapper.
func IsMetricsKind(kind string) bool { return strings.HasSuffix(kind, "+m") }
