package harness

import (
	"context"
	"errors"
	"math/rand"
	"sync"
	"sync/atomic"

	"go.etcd.io/etcd/api/v3/etcdserverpb"
	"go.etcd.io/etcd/api/v3/mvccpb"

	"github.com/kubewharf/kubebrain/pkg/server/service/leader"
)

// Peers is a scripted service.PeerService: role, proxy flag and revision-sync behaviour are set by
// the workload; every proxied call is recorded.
type Peers struct {
	Leader   int32
	Proxy    bool
	LeaderAt string
	SyncFn   func() error // nil = no-op success
	mu       sync.Mutex
	ProxyTxn int
	ProxyW   int
	Syncs    int64
}

// NewPeers returns a PeerService stub.
func NewPeers(isLeader bool) *Peers {
	p := &Peers{LeaderAt: "127.0.0.1:1"}
	if isLeader {
		p.Leader = 1
	}
	return p
}

func (p *Peers) SyncReadRevision() error {
	atomic.AddInt64(&p.Syncs, 1)
	if p.SyncFn != nil {
		return p.SyncFn()
	}
	return nil
}
func (p *Peers) Close() error          { return nil }
func (p *Peers) Campaign()             {}
func (p *Peers) GetLeaderInfo() string { return p.LeaderAt }
func (p *Peers) IsLeader() bool        { return atomic.LoadInt32(&p.Leader) == 1 }
func (p *Peers) GetElectionInfo() (leader.ElectionInfo, error) {
	return leader.ElectionInfo{LeaderAddress: p.LeaderAt, IsLeader: p.IsLeader()}, nil
}
func (p *Peers) EtcdProxyEnabled() bool { return p.Proxy }

var ErrProxied = errors.New("proxied to leader (stub)")

func (p *Peers) Txn(ctx context.Context, txn *etcdserverpb.TxnRequest) (*etcdserverpb.TxnResponse, error) {
	p.mu.Lock()
	p.ProxyTxn++
	p.mu.Unlock()
	return nil, ErrProxied
}
func (p *Peers) Watch(ctx context.Context, key string, revision uint64) (<-chan []*mvccpb.Event, error) {
	p.mu.Lock()
	p.ProxyW++
	p.mu.Unlock()
	return nil, ErrProxied
}

// NewRand is a helper for goroutine-local PRNGs.
func NewRand(seed int64) *rand.Rand { return rand.New(rand.NewSource(seed)) }
