package harness

import (
	"context"
	"fmt"
	"sync"

	proto "github.com/kubewharf/kubebrain-client/api/v2rpc"
	"k8s.io/client-go/tools/leaderelection/resourcelock"

	"github.com/kubewharf/kubebrain/pkg/backend"
)

// RecBackend wraps a real backend.Backend and logs every call (public interface only).
type RecBackend struct {
	Inner backend.Backend
	mu    sync.Mutex
	Calls []string
}

var _ backend.Backend = (*RecBackend)(nil)

func (r *RecBackend) rec(s string) {
	r.mu.Lock()
	r.Calls = append(r.Calls, s)
	r.mu.Unlock()
}

// Take returns and clears the call log.
func (r *RecBackend) Take() []string {
	r.mu.Lock()
	defer r.mu.Unlock()
	c := r.Calls
	r.Calls = nil
	return c
}

func (r *RecBackend) Create(ctx context.Context, req *proto.CreateRequest) (*proto.CreateResponse, error) {
	r.rec("Create")
	return r.Inner.Create(ctx, req)
}
func (r *RecBackend) Update(ctx context.Context, req *proto.UpdateRequest) (*proto.UpdateResponse, error) {
	r.rec("Update")
	return r.Inner.Update(ctx, req)
}
func (r *RecBackend) Delete(ctx context.Context, req *proto.DeleteRequest) (*proto.DeleteResponse, error) {
	r.rec("Delete")
	return r.Inner.Delete(ctx, req)
}
func (r *RecBackend) Compact(ctx context.Context, revision uint64) (*proto.CompactResponse, error) {
	r.rec("Compact")
	return r.Inner.Compact(ctx, revision)
}
func (r *RecBackend) Get(ctx context.Context, req *proto.GetRequest) (*proto.GetResponse, error) {
	r.rec("Get")
	return r.Inner.Get(ctx, req)
}
func (r *RecBackend) List(ctx context.Context, req *proto.RangeRequest) (*proto.RangeResponse, error) {
	r.rec("List")
	return r.Inner.List(ctx, req)
}
func (r *RecBackend) Count(ctx context.Context, req *proto.CountRequest) (*proto.CountResponse, error) {
	r.rec("Count")
	return r.Inner.Count(ctx, req)
}
func (r *RecBackend) GetPartitions(ctx context.Context, req *proto.ListPartitionRequest) (*proto.ListPartitionResponse, error) {
	r.rec("GetPartitions")
	return r.Inner.GetPartitions(ctx, req)
}
func (r *RecBackend) ListByStream(ctx context.Context, startKey, endKey []byte, revision uint64) (<-chan *proto.StreamRangeResponse, error) {
	r.rec("ListByStream")
	return r.Inner.ListByStream(ctx, startKey, endKey, revision)
}
func (r *RecBackend) Watch(ctx context.Context, key string, revision uint64) (<-chan []*proto.Event, error) {
	r.rec("Watch")
	return r.Inner.Watch(ctx, key, revision)
}
func (r *RecBackend) GetResourceLock() resourcelock.Interface { return r.Inner.GetResourceLock() }
func (r *RecBackend) GetCurrentRevision() uint64              { return r.Inner.GetCurrentRevision() }
func (r *RecBackend) SetCurrentRevision(rev uint64) {
	r.rec(fmt.Sprintf("SetCurrentRevision(%d)", rev))
	r.Inner.SetCurrentRevision(rev)
}
