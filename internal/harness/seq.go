package harness

import (
	"bytes"
	"context"
	"fmt"
	"time"

	proto "github.com/kubewharf/kubebrain-client/api/v2rpc"
)

// SeqOp is one client write request of a sequential history.
type SeqOp struct {
	Kind string `json:"kind"` // create | update | delete
	Key  string `json:"key"`
	Val  []byte `json:"val,omitempty"`
	Exp  uint64 `json:"exp,omitempty"` // expected revision (update: required; delete: 0 = unguarded)
	// Lease is sent as the request's lease id (create, update). kubebrain has no leases: expiry is a property of
	// Event keys only, so the field must not change what happens to a key.
	Lease int64 `json:"lease,omitempty"`
}

func (o SeqOp) String() string {
	v := o.Val
	if len(v) > 24 {
		v = append(append([]byte{}, v[:24]...), []byte("...")...)
	}
	if o.Lease != 0 {
		return fmt.Sprintf("%s(%q,val=%q,exp=%d,lease=%d)", o.Kind, o.Key, v, o.Exp, o.Lease)
	}
	return fmt.Sprintf("%s(%q,val=%q,exp=%d)", o.Kind, o.Key, v, o.Exp)
}

// Outcome is the client-visible result of a write.
type Outcome struct {
	Err       string `json:"err,omitempty"`
	Succeeded bool   `json:"succeeded"`
	Rev       uint64 `json:"rev"` // response header revision
	HasKv     bool   `json:"has_kv,omitempty"`
	KvVal     []byte `json:"kv_val,omitempty"`
	KvRev     uint64 `json:"kv_rev,omitempty"`
}

func (o Outcome) String() string {
	if o.Err != "" {
		return "error(" + o.Err + ")"
	}
	s := fmt.Sprintf("succeeded=%v rev=%d", o.Succeeded, o.Rev)
	if o.HasKv {
		s += fmt.Sprintf(" kv=(%q,%d)", o.KvVal, o.KvRev)
	}
	return s
}

// Do executes op on the node and waits until the node's read revision has passed it.
func (n *Node) Do(op SeqOp) Outcome { return n.DoCtx(Ctx, op) }

// DoCtx is Do with the request context of the caller's choice (a client may have given up already).
func (n *Node) DoCtx(ctx context.Context, op SeqOp) Outcome {
	if ctx != Ctx || op.Lease != 0 {
		return n.doCtx(ctx, op)
	}
	var out Outcome
	switch op.Kind {
	case "create":
		r, err := n.Create(op.Key, op.Val)
		if err != nil {
			out.Err = err.Error()
		} else {
			out.Succeeded, out.Rev = r.Succeeded, r.Header.GetRevision()
		}
	case "update":
		r, err := n.Update(op.Key, op.Val, op.Exp)
		if err != nil {
			out.Err = err.Error()
		} else {
			out.Succeeded, out.Rev = r.Succeeded, r.Header.GetRevision()
			if r.Kv != nil {
				out.HasKv, out.KvVal, out.KvRev = true, r.Kv.Value, r.Kv.Revision
			}
		}
	case "delete":
		r, err := n.Delete(op.Key, op.Exp)
		if err != nil {
			out.Err = err.Error()
		} else {
			out.Succeeded, out.Rev = r.Succeeded, r.Header.GetRevision()
			if r.Kv != nil {
				out.HasKv, out.KvVal, out.KvRev = true, r.Kv.Value, r.Kv.Revision
			}
		}
	}
	return out
}

// Predict says what etcd/kubebrain semantics prescribe for op on model state m.
// wantKv is the key-value the failure branch (or a successful delete) must carry.
func (m *Model) Predict(op SeqOp) (succeed bool, wantKv *Ver) {
	live := m.Live(op.Key)
	switch op.Kind {
	case "create":
		return live == nil, nil
	case "update":
		if op.Exp == 0 {
			return live == nil, live
		}
		if live != nil && live.Rev == op.Exp {
			return true, nil
		}
		return false, live
	case "delete":
		if live == nil {
			return false, nil
		}
		if op.Exp == 0 || op.Exp == live.Rev {
			return true, live
		}
		return false, live
	}
	return false, nil
}

// ApplyChecked runs op on the node, compares the outcome with the model's prediction, applies a
// success to the model at the response revision, and returns a mismatch description ("" if none).
func (n *Node) ApplyChecked(m *Model, op SeqOp) (Outcome, string) {
	succeed, want := m.Predict(op)
	prev := m.Live(op.Key)
	out := n.Do(op)
	if out.Err == "" && out.Rev > 0 {
		if !n.WaitCommitted(out.Rev, 30*time.Second) {
			return out, "watchdog"
		}
	}
	if out.Err != "" {
		return out, fmt.Sprintf("%s returned error %q; expected succeeded=%v", op, out.Err, succeed)
	}
	if out.Succeeded != succeed {
		return out, fmt.Sprintf("%s answered succeeded=%v; reference says %v (current: %s)", op, out.Succeeded, succeed, verStr(prev))
	}
	if succeed {
		if lv := m.Latest(op.Key); lv != nil && out.Rev <= lv.Rev {
			return out, fmt.Sprintf("%s succeeded at revision %d which is not above the key's previous revision %d", op, out.Rev, lv.Rev)
		}
		switch op.Kind {
		case "create", "update":
			m.Put(op.Key, out.Rev, op.Val)
		case "delete":
			if !out.HasKv || !bytes.Equal(out.KvVal, want.Val) || out.KvRev != want.Rev {
				m.Del(op.Key, out.Rev)
				return out, fmt.Sprintf("%s succeeded but returned previous kv %s; reference previous is %s", op, out, verStr(want))
			}
			m.Del(op.Key, out.Rev)
		}
		return out, ""
	}
	// failure branch: the current key-value must be returned for update/guarded delete
	if op.Kind == "create" {
		return out, ""
	}
	if want == nil {
		if out.HasKv {
			return out, fmt.Sprintf("%s failed and returned kv %s but the key is absent in the reference", op, out)
		}
		return out, ""
	}
	if !out.HasKv || !bytes.Equal(out.KvVal, want.Val) || out.KvRev != want.Rev {
		return out, fmt.Sprintf("%s failed and returned %s; reference current is %s", op, out, verStr(want))
	}
	return out, ""
}

func verStr(v *Ver) string {
	if v == nil {
		return "absent"
	}
	if v.Del {
		return fmt.Sprintf("deleted@%d", v.Rev)
	}
	val := v.Val
	if len(val) > 24 {
		val = val[:24]
	}
	return fmt.Sprintf("(%q,%d)", val, v.Rev)
}

func (n *Node) doCtx(ctx context.Context, op SeqOp) Outcome {
	var out Outcome
	switch op.Kind {
	case "create":
		r, err := n.B.Create(ctx, &proto.CreateRequest{Key: []byte(op.Key), Value: op.Val, Lease: op.Lease})
		if err != nil {
			out.Err = err.Error()
		} else {
			out.Succeeded, out.Rev = r.Succeeded, r.Header.GetRevision()
		}
	case "update":
		r, err := n.B.Update(ctx, &proto.UpdateRequest{Kv: &proto.KeyValue{Key: []byte(op.Key), Value: op.Val, Revision: op.Exp}, Lease: op.Lease})
		if err != nil {
			out.Err = err.Error()
		} else {
			out.Succeeded, out.Rev = r.Succeeded, r.Header.GetRevision()
			if r.Kv != nil {
				out.HasKv, out.KvVal, out.KvRev = true, r.Kv.Value, r.Kv.Revision
			}
		}
	case "delete":
		r, err := n.B.Delete(ctx, &proto.DeleteRequest{Key: []byte(op.Key), Revision: op.Exp})
		if err != nil {
			out.Err = err.Error()
		} else {
			out.Succeeded, out.Rev = r.Succeeded, r.Header.GetRevision()
			if r.Kv != nil {
				out.HasKv, out.KvVal, out.KvRev = true, r.Kv.Value, r.Kv.Revision
			}
		}
	}
	return out
}
