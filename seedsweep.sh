#!/bin/bash
# Applies every seeded change to /repo in turn, runs the checks named for it (quick tier), undoes it, and
# writes seeded/<id>/sweep.txt + a summary table. Usage: seedsweep.sh [id...]
cd /verif
declare -A CHECKS=(
 [C01]="C01 C02" [C02]="C02 C01" [C03]="C03 C13 C07" [C04]="C04 C09 C20" [C05]="C05 C06 C19" [C06]="C09 C06 C04" [C07]="C07"
 [C08]="C08 C09" [C09]="C09" [C10]="C10" [C11]="C11 C19" [C12]="C12 C11 C13" [C13]="C13" [C14]="C14 C11" [C15]="C15"
 [C16]="C16 C03" [C05-3]="C05 C09" [C07-3]="C07 C13" [C16-3]="C16 C13 C03" [C06-3]="C06 C07" [C01-3]="C01 C11" [C01-8]="C01 C04" [C03-8]="C03 C16" [C07-8]="C07 C17" [C10-8]="C10 C16" [C11-8]="C11" [C12-8]="C12 C03" [C14-8]="C14" [C15-8]="C15" [C17-8]="C17" [C19-8]="C19" [C02-8]="C02 C08" [C04-8]="C04" [C05-8]="C05" [C06-8]="C06 C05" [C08-8]="C08" [C09-8]="C09" [C13-8]="C13" [C16-8]="C16" [C18-8]="C18" [C20-8]="C20" [C01-7]="C01 C02" [C03-7]="C03 C11 C19" [C07-7]="C07" [C10-7]="C10 C03 C16" [C11-7]="C11" [C12-7]="C12 C17" [C14-7]="C14" [C15-7]="C15" [C17-7]="C17 C12" [C19-7]="C19" [C02-7]="C02 C01" [C04-7]="C04 C01" [C05-7]="C05" [C06-7]="C06 C07 C17" [C08-7]="C08" [C09-7]="C09" [C13-7]="C13 C08" [C16-7]="C16 C13 C03" [C18-7]="C18" [C20-7]="C20" [C01-6]="C01 C17" [C03-6]="C03 C08" [C07-6]="C07 C17" [C10-6]="C10 C07" [C11-6]="C11" [C12-6]="C12 C17" [C14-6]="C14 C11" [C15-6]="C15" [C17-6]="C17" [C19-6]="C19 C11" [C02-6]="C02 C18" [C04-6]="C04" [C05-6]="C05 C06" [C06-6]="C06 C05" [C08-6]="C08" [C09-6]="C09" [C13-6]="C13" [C16-6]="C16 C03" [C18-6]="C18" [C20-6]="C20 C05" [C01-5]="C01 C07" [C03-5]="C03 C13" [C07-5]="C07" [C10-5]="C10 C19" [C11-5]="C11" [C12-5]="C12 C17" [C14-5]="C14" [C15-5]="C15" [C17-5]="C17" [C19-5]="C19" [C02-5]="C02 C15" [C04-5]="C04 C15" [C05-5]="C05 C18" [C06-5]="C06 C18" [C08-5]="C08" [C09-5]="C09" [C13-5]="C13" [C16-5]="C16" [C18-5]="C18" [C20-5]="C20 C05" [C01-4]="C01 C09" [C02-4]="C02 C06" [C03-4]="C03 C07" [C04-4]="C04 C05" [C05-4]="C05" [C06-4]="C06" [C07-4]="C07" [C08-4]="C08" [C09-4]="C09" [C10-4]="C10" [C11-4]="C11" [C12-4]="C12" [C13-4]="C13 C03" [C14-4]="C14 C01" [C15-4]="C15" [C16-4]="C16 C06" [C17-4]="C17" [C18-4]="C18" [C19-4]="C19 C05" [C20-4]="C20" [C10-3]="C10 C13 C16" [C11-3]="C11 C07" [C12-3]="C12 C17" [C17]="C17 C07" [C18]="C18" [C19]="C19" [C20]="C20 C19"
)
ids="$@"; [ -z "$ids" ] && ids=$(ls seeded | grep '^C')
for id in $ids; do
  d=seeded/$id; [ -f $d/patch.diff ] || continue
  prop=${id%%-*}
  if ! git -C /repo apply --check $PWD/$d/patch.diff 2>/dev/null; then echo "$id PATCH-DOES-NOT-APPLY"; continue; fi
  git -C /repo apply $PWD/$d/patch.diff
  : > $d/sweep.txt
  for c in ${CHECKS[$id]:-${CHECKS[$prop]}}; do
    out=$(./bin/kbcheck $c --tier quick 2>&1); e=$?
    sig=$(echo "$out" | grep -m1 "signature:" | sed 's/^ *signature: //' | cut -c1-160)
    res=missed; [ $e -eq 1 ] && res=caught
    echo "$id check=$c exit=$e $res ${sig}" | tee -a $d/sweep.txt
  done
  git -C /repo checkout -- .
done
git -C /repo status --short
