package main

func raceResults(scratch string, p plan, seed int64) []result { return nil }
