package main

import (
	"fmt"
	"io/ioutil"
	"path/filepath"
	"sort"
	"strings"
)

// raceResults turns the race detector's log files into pseudo results: one violated result per
// distinct report signature (pair of innermost kubebrain functions, line numbers stripped).
// Reports with no kubebrain frame on either side (TiKV mock internals, harness code) are listed
// in evidence but do not decide the property.
func raceResults(scratch string, p plan, seed int64) []result {
	files, _ := filepath.Glob(filepath.Join(scratch, "race.log*"))
	type rep struct {
		sig   string
		text  string
		kb    bool
		count int
	}
	reps := map[string]*rep{}
	total := 0
	for _, f := range files {
		b, err := ioutil.ReadFile(f)
		if err != nil {
			continue
		}
		for _, blk := range strings.Split(string(b), "==================") {
			if !strings.Contains(blk, "WARNING: DATA RACE") {
				continue
			}
			total++
			stacks := accessStacks(blk)
			var inner []string
			kb := false
			harnessTop := false
			for _, st := range stacks {
				fn := ""
				for _, fr := range st {
					if strings.HasPrefix(fr, "github.com/kubewharf/kubebrain/") {
						fn = fr
						break
					}
				}
				if len(st) > 0 && strings.HasPrefix(st[0], "verif/") {
					harnessTop = true
				}
				if fn != "" {
					kb = true
				} else if len(st) > 0 {
					fn = st[0]
				}
				inner = append(inner, fn)
			}
			sort.Strings(inner)
			sig := strings.Join(inner, " || ")
			r := reps[sig]
			if r == nil {
				r = &rep{sig: sig, text: blk, kb: kb && !harnessTop}
				reps[sig] = r
			}
			r.count++
		}
	}
	var out []result
	idx := p.NCases
	var sigs []string
	for s := range reps {
		sigs = append(sigs, s)
	}
	sort.Strings(sigs)
	outside := []string{}
	for _, s := range sigs {
		r := reps[s]
		if !r.kb {
			outside = append(outside, fmt.Sprintf("%s (x%d)", r.sig, r.count))
			continue
		}
		text := r.text
		if len(text) > 8000 {
			text = text[:8000]
		}
		out = append(out, result{Case: idx, Name: "race-report", Verdict: "violated",
			Violations: []violation{{Sig: "C19 data-race " + r.sig, Detail: fmt.Sprintf("the race detector reported this pair %d time(s) in this run", r.count),
				Witness: map[string]interface{}{"report": text}}},
			Stats: map[string]int64{"race_reports_in_kubebrain_code": int64(r.count)}})
		idx++
	}
	out = append(out, result{Case: idx, Name: "race-log-summary", Verdict: "held",
		Stats: map[string]int64{"race_report_blocks_total": int64(total), "race_log_files": int64(len(files))},
		Sets:  map[string][]string{"race_reports_outside_kubebrain": outside}})
	return out
}

// accessStacks returns the two access stacks of a report as lists of function names.
func accessStacks(blk string) [][]string {
	var stacks [][]string
	var cur []string
	in := false
	for _, l := range strings.Split(blk, "\n") {
		t := strings.TrimSpace(l)
		switch {
		case strings.HasPrefix(t, "Read at") || strings.HasPrefix(t, "Write at") || strings.HasPrefix(t, "Previous read at") || strings.HasPrefix(t, "Previous write at") ||
			strings.HasPrefix(t, "Atomic read at") || strings.HasPrefix(t, "Atomic write at") || strings.HasPrefix(t, "Previous atomic"):
			in = true
			cur = nil
		case t == "" && in:
			stacks = append(stacks, cur)
			in = false
		case in && strings.HasSuffix(t, ")") && !strings.Contains(t, " +0x") && !strings.HasPrefix(t, "/"):
			fn := t
			if i := strings.LastIndex(fn, "("); i > 0 {
				fn = fn[:i]
			}
			cur = append(cur, fn)
		}
	}
	if in {
		stacks = append(stacks, cur)
	}
	return stacks
}
