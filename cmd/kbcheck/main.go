// kbcheck is the driver: it rebuilds the worker from /repo's current working tree with the verif
// hooks enabled, runs the cases of one property in child processes, applies the known-findings
// file, writes the evidence file and prints the verdict lines. It links no kubebrain code itself.
package main

import (
	"bufio"
	"encoding/json"
	"fmt"
	"io/ioutil"
	"os"
	"os/exec"
	"path/filepath"
	"regexp"
	"sort"
	"strconv"
	"strings"
	"sync"
	"time"
)

type plan struct {
	Prop        string   `json:"prop"`
	Level       string   `json:"level"`
	NCases      int      `json:"n_cases"`
	Batch       int      `json:"batch"`
	Par         int      `json:"par"`
	Race        bool     `json:"race"`
	CaseTimeout int      `json:"case_timeout_s"` // watchdog per case (seconds)
	Rule        string   `json:"rule"`
	Assumptions []string `json:"assumptions"`
	MinConcl    int      `json:"min_conclusive"`
	Exhaustive  bool     `json:"exhaustive"`
}

type violation struct {
	Sig     string      `json:"sig"`
	Detail  string      `json:"detail"`
	Witness interface{} `json:"witness,omitempty"`
}

type result struct {
	Start        *int                `json:"start,omitempty"`
	Case         int                 `json:"case"`
	Name         string              `json:"name"`
	Verdict      string              `json:"verdict"`
	Violations   []violation         `json:"violations,omitempty"`
	Inconclusive string              `json:"inconclusive,omitempty"`
	Nontrivial   bool                `json:"nontrivial"`
	Fingerprint  string              `json:"fingerprint,omitempty"`
	Stats        map[string]int64    `json:"stats,omitempty"`
	Sample       interface{}         `json:"sample,omitempty"`
	Sets         map[string][]string `json:"sets,omitempty"`
	Fingerprints []string            `json:"fingerprints,omitempty"`
	Evals        int64               `json:"evals,omitempty"`
}

type finding struct {
	Property string `json:"property"`
	Status   string `json:"status"` // known | fixed
	Match    string `json:"match"`  // regexp over the violation signature
	What     string `json:"what"`
	Commit   string `json:"commit,omitempty"`
	re       *regexp.Regexp
}

var verifDir string

func goEnv() []string {
	env := os.Environ()
	env = append(env, "GOFLAGS=-mod=mod", "GOPROXY=off", "GOSUMDB=off", "GOTOOLCHAIN=local")
	return env
}

func fatal(format string, a ...interface{}) {
	fmt.Fprintf(os.Stderr, "kbcheck: "+format+"\n", a...)
	os.Exit(2)
}

func buildWorker(race bool) string {
	out := filepath.Join(verifDir, "bin", "kbworker")
	args := []string{"build", "-tags", "verif"}
	if race {
		out += "-race"
		args = append(args, "-race")
	}
	args = append(args, "-o", out, "./cmd/kbworker")
	cmd := exec.Command("go", args...)
	cmd.Dir = verifDir
	cmd.Env = goEnv()
	b, err := cmd.CombinedOutput()
	if err != nil {
		// a tree that does not compile with the hooks on is not a verdict about the property
		fmt.Printf("BUILD-FAILED: worker does not build from /repo's working tree\n%s\n", b)
		os.Exit(2)
	}
	return out
}

func loadFindings() []finding {
	var f struct {
		Findings []finding `json:"findings"`
	}
	b, err := ioutil.ReadFile(filepath.Join(verifDir, "known_findings.json"))
	if err != nil {
		return nil
	}
	if err := json.Unmarshal(b, &f); err != nil {
		fatal("known_findings.json: %v", err)
	}
	for i := range f.Findings {
		f.Findings[i].re = regexp.MustCompile(f.Findings[i].Match)
	}
	return f.Findings
}

type batchOut struct {
	results []result
	crashes []result
}

var klogFatal = regexp.MustCompile(`^F\d{4} [0-9:.]+\s+\d+ ([^\]]+)\] (.*)$`)

var kbFrame = regexp.MustCompile(`(github\.com/kubewharf/kubebrain/[^\s(]+)`)

// classifyDeath turns a dead child's stderr into a pseudo result for the case that was running.
func classifyDeath(caseIdx int, name string, stderr string, timedOut bool) result {
	r := result{Case: caseIdx, Name: name}
	lines := strings.Split(stderr, "\n")
	msg := ""
	for _, l := range lines {
		if strings.HasPrefix(l, "panic: ") || strings.HasPrefix(l, "fatal error: ") {
			msg = l
			break
		}
	}
	// klog.Fatal: kubebrain ended the process on purpose ("F0925 21:41:38.5 1 file.go:12] message")
	if msg == "" {
		for _, l := range lines {
			if m := klogFatal.FindStringSubmatch(l); m != nil && !strings.Contains(l, "leader lost") {
				norm := regexp.MustCompile(`"(\\.|[^"\\])*"`).ReplaceAllString(m[2], `"..."`)
				norm = regexp.MustCompile(`0x[0-9a-f]+|\d+`).ReplaceAllString(norm, "N")
				if len(norm) > 100 {
					norm = norm[:100]
				}
				file := regexp.MustCompile(`:\d+$`).ReplaceAllString(m[1], "")
				tail := stderr
				if len(tail) > 4000 {
					tail = tail[:4000]
				}
				r.Verdict = "violated"
				r.Violations = []violation{{Sig: "crash klog.Fatal in " + file + ": " + norm, Detail: "the node ended itself with klog.Fatal while serving the case: " + l,
					Witness: map[string]interface{}{"stderr_head": tail}}}
				return r
			}
		}
	}
	if strings.Contains(stderr, "leader lost") && msg == "" {
		r.Verdict = "inconclusive"
		r.Inconclusive = "child ended by the election loop's deliberate klog.Fatal(leader lost)"
		return r
	}
	if timedOut && msg == "" {
		if sig, detail, stack := stalledRequest(stderr); sig != "" {
			r.Verdict = "violated"
			r.Violations = []violation{{Sig: sig, Detail: detail, Witness: map[string]interface{}{"parked_goroutine": stack}}}
			return r
		}
		r.Verdict = "inconclusive"
		r.Inconclusive = "watchdog: case exceeded its wall-clock budget (goroutine dump kept in the run log)"
		return r
	}
	if msg == "" {
		r.Verdict = "inconclusive"
		r.Inconclusive = "child died without a panic or fatal error message"
		return r
	}
	// first kubebrain frame after the message
	frame := ""
	seen := false
	for _, l := range lines {
		if l == msg {
			seen = true
			continue
		}
		if seen {
			if m := kbFrame.FindString(l); m != "" && !strings.Contains(m, "/verif/") {
				frame = m
				break
			}
		}
	}
	norm := regexp.MustCompile(`"(\\.|[^"\\])*"`).ReplaceAllString(msg, `"..."`)
	norm = regexp.MustCompile(`0x[0-9a-f]+|\d+`).ReplaceAllString(norm, "N")
	if len(norm) > 120 {
		norm = norm[:120]
	}
	if frame == "" && strings.HasPrefix(msg, "panic:") {
		// the grpc server panicked while encoding a response: every grpc server in the worker is a kubebrain server (the
		// harness only runs grpc clients), so the message it could not encode is what a kubebrain handler returned
		seen, inStack := false, false
		for _, l := range lines {
			if l == msg {
				seen = true
				continue
			}
			if !seen {
				continue
			}
			if strings.HasPrefix(l, "goroutine ") {
				if inStack {
					break
				}
				inStack = true
				continue
			}
			if inStack && strings.Contains(l, "/verif/") {
				break
			}
			if inStack && (strings.HasPrefix(l, "google.golang.org/grpc.(*Server).sendResponse(") || strings.HasPrefix(l, "google.golang.org/grpc.(*serverStream).SendMsg(")) {
				frame = "grpc server encoding the handler's response"
				break
			}
		}
	}
	if frame == "" {
		// a crash with no kubebrain frame is the harness's own bug, not a verdict
		r.Verdict = "inconclusive"
		r.Inconclusive = "child crashed outside kubebrain code: " + norm
		return r
	}
	tail := stderr
	if len(tail) > 6000 {
		tail = tail[:6000]
	}
	r.Verdict = "violated"
	r.Violations = []violation{{Sig: "crash " + norm + " in " + frame, Detail: "process died while serving the case: " + msg,
		Witness: map[string]interface{}{"stderr_head": tail}}}
	return r
}

func runBatch(worker string, p plan, tier string, seed int64, from, to int, scratch string, extraEnv []string, only string) batchOut {
	var out batchOut
	for from < to {
		tag := fmt.Sprintf("%s-%d-%d", p.Prop, from, to)
		outFile := filepath.Join(scratch, tag+".jsonl")
		errFile := filepath.Join(scratch, tag+".stderr")
		os.Remove(outFile)
		budget := p.CaseTimeout*(to-from) + 30
		args := []string{"-s", "QUIT", "-k", "10", strconv.Itoa(budget), worker, "run", "--prop", p.Prop, "--tier", tier,
			"--seed", strconv.FormatInt(seed, 10), "--from", strconv.Itoa(from), "--to", strconv.Itoa(to),
			"--out", outFile, "--scratch", scratch}
		if only != "" {
			args = append(args, "--only", only)
		}
		cmd := exec.Command("timeout", args...)
		cmd.Dir = verifDir
		cmd.Env = append(goEnv(), extraEnv...)
		ef, _ := os.Create(errFile)
		cmd.Stdout = ef
		cmd.Stderr = ef
		err := cmd.Run()
		ef.Close()
		// read what the child reported
		started := -1
		startedName := ""
		done := map[int]bool{}
		if f, e := os.Open(outFile); e == nil {
			sc := bufio.NewScanner(f)
			sc.Buffer(make([]byte, 1<<20), 256<<20)
			for sc.Scan() {
				var r result
				if json.Unmarshal(sc.Bytes(), &r) != nil {
					continue
				}
				if r.Start != nil {
					started = *r.Start
					startedName = r.Name
					continue
				}
				done[r.Case] = true
				out.results = append(out.results, r)
			}
			f.Close()
		}
		if err == nil {
			break
		}
		// child died: the case that was started and not finished is the witness
		code := -1
		if ee, ok := err.(*exec.ExitError); ok {
			code = ee.ExitCode()
		}
		eb, _ := ioutil.ReadFile(errFile)
		if started < 0 || done[started] {
			// died outside a case (startup or shutdown)
			r := classifyDeath(from, "startup", string(eb), code == 124)
			if r.Verdict == "violated" || started < 0 {
				out.crashes = append(out.crashes, r)
			}
			if started < 0 {
				break
			}
			from = started + 1
			continue
		}
		r := classifyDeath(started, startedName, string(eb), code == 124)
		out.crashes = append(out.crashes, r)
		// keep the stderr of a crash for inspection
		keep := filepath.Join(verifDir, "replays", fmt.Sprintf("%s-seed%d-case%d.stderr", p.Prop, seed, started))
		os.MkdirAll(filepath.Dir(keep), 0755)
		if len(eb) > 2<<20 {
			eb = eb[:2<<20]
		}
		ioutil.WriteFile(keep, eb, 0644)
		from = started + 1
	}
	return out
}

func main() {
	if len(os.Args) < 2 {
		fatal("usage: kbcheck <Cxx> [--tier quick|thorough] [--seed N] [--only name] | kbcheck replay <file>")
	}
	exe, _ := os.Executable()
	verifDir = filepath.Dir(filepath.Dir(exe))
	if _, err := os.Stat(filepath.Join(verifDir, "go.mod")); err != nil {
		verifDir, _ = os.Getwd()
	}
	if os.Args[1] == "replay" {
		replay(os.Args[2])
		return
	}
	prop := os.Args[1]
	tier := os.Getenv("VERIF_TIER")
	seed := int64(1)
	if s := os.Getenv("VERIF_SEED"); s != "" {
		if v, err := strconv.ParseInt(s, 10, 64); err == nil {
			seed = v
		}
	}
	only := ""
	tierFlag := ""
	for i := 2; i < len(os.Args); i++ {
		switch os.Args[i] {
		case "--tier":
			i++
			tierFlag = os.Args[i]
		case "--seed":
			i++
			seed, _ = strconv.ParseInt(os.Args[i], 10, 64)
		case "--only":
			i++
			only = os.Args[i]
		}
	}
	if tierFlag != "" {
		tier = tierFlag // the command line names the tier; VERIF_TIER only fills in when it does not
	}
	if tier == "" {
		tier = "quick"
	}
	os.Exit(runCheck(prop, tier, seed, only, true))
}

func getPlan(worker, prop, tier string) plan {
	cmd := exec.Command(worker, "plan", prop, tier)
	cmd.Env = goEnv()
	b, err := cmd.Output()
	if err != nil {
		fatal("plan %s: %v", prop, err)
	}
	var p plan
	if err := json.Unmarshal(b, &p); err != nil {
		fatal("plan %s: %v (%s)", prop, err, b)
	}
	return p
}

func runCheck(prop, tier string, seed int64, only string, writeEvidence bool) int {
	t0 := time.Now()
	worker := buildWorker(false)
	p := getPlan(worker, prop, tier)
	if p.Race {
		worker = buildWorker(true)
	}
	scratch, err := ioutil.TempDir("", "kbcheck-"+prop+"-")
	if err != nil {
		fatal("scratch: %v", err)
	}
	defer os.RemoveAll(scratch)
	var extraEnv []string
	if p.Race {
		extraEnv = append(extraEnv, "GORACE=halt_on_error=0 log_path="+filepath.Join(scratch, "race.log"))
	}

	// batches
	type job struct{ from, to int }
	var jobs []job
	for i := 0; i < p.NCases; i += p.Batch {
		j := i + p.Batch
		if j > p.NCases {
			j = p.NCases
		}
		jobs = append(jobs, job{i, j})
	}
	par := p.Par
	if par <= 0 {
		par = 16
	}
	sem := make(chan struct{}, par)
	var mu sync.Mutex
	var all []result
	var wg sync.WaitGroup
	for _, j := range jobs {
		wg.Add(1)
		sem <- struct{}{}
		go func(j job) {
			defer wg.Done()
			defer func() { <-sem }()
			o := runBatch(worker, p, tier, seed, j.from, j.to, scratch, extraEnv, only)
			mu.Lock()
			all = append(all, o.results...)
			all = append(all, o.crashes...)
			mu.Unlock()
		}(j)
	}
	wg.Wait()
	sort.SliceStable(all, func(i, j int) bool { return all[i].Case < all[j].Case })

	if p.Race {
		all = append(all, raceResults(scratch, p, seed)...)
	}

	// verdicts
	findings := loadFindings()
	held, inconcl, violated := 0, 0, 0
	fps := map[string]bool{}
	evals := int64(0)
	stats := map[string]int64{}
	sets := map[string]map[string]bool{}
	var samples []interface{}
	var inconclWhy []string
	knownSeen := map[string]int{}
	type unlisted struct {
		r result
		v violation
	}
	var unl []unlisted
	for _, r := range all {
		for k, v := range r.Stats {
			stats[k] += v
		}
		for k, ms := range r.Sets {
			if sets[k] == nil {
				sets[k] = map[string]bool{}
			}
			for _, m := range ms {
				sets[k][m] = true
			}
		}
		if r.Nontrivial && r.Fingerprint != "" {
			fps[r.Fingerprint] = true
		}
		for _, fp := range r.Fingerprints {
			fps[fp] = true
		}
		if r.Evals > 0 {
			evals += r.Evals
		} else {
			evals++
		}
		if r.Sample != nil && len(samples) < 3 {
			samples = append(samples, map[string]interface{}{"case": r.Case, "name": r.Name, "verdict": r.Verdict, "sample": r.Sample})
		}
		switch r.Verdict {
		case "held":
			held++
		case "inconclusive":
			inconcl++
			if len(inconclWhy) < 5 {
				inconclWhy = append(inconclWhy, fmt.Sprintf("case %d (%s): %s", r.Case, r.Name, r.Inconclusive))
			}
		case "violated":
			violated++
			for _, v := range r.Violations {
				matched := false
				for _, f := range findings {
					if f.Status == "known" && f.Property == prop && f.re.MatchString(v.Sig) {
						knownSeen[f.What]++
						matched = true
						break
					}
				}
				if !matched {
					unl = append(unl, unlisted{r, v})
				}
			}
		}
	}
	for what, n := range knownSeen {
		fmt.Printf("KNOWN-FINDING: property=%s %s (observed %d time(s) in this run)\n", prop, what, n)
	}
	exit := 0
	var replayPaths []string
	seenSig := map[string]bool{}
	for _, u := range unl {
		if seenSig[u.v.Sig] {
			continue
		}
		seenSig[u.v.Sig] = true
		path := filepath.Join(verifDir, "replays", fmt.Sprintf("%s-seed%d-case%d-%d.json", prop, seed, u.r.Case, len(replayPaths)))
		os.MkdirAll(filepath.Dir(path), 0755)
		b, _ := json.MarshalIndent(map[string]interface{}{
			"property": prop, "tier": tier, "seed": seed, "case": u.r.Case, "name": u.r.Name,
			"signature": u.v.Sig, "detail": u.v.Detail, "witness": u.v.Witness,
		}, "", " ")
		ioutil.WriteFile(path, b, 0644)
		replayPaths = append(replayPaths, path)
		fmt.Printf("VIOLATION property=%s replay=%s\n", prop, path)
		fmt.Printf("  signature: %s\n  detail: %s\n", u.v.Sig, trunc(u.v.Detail, 600))
		exit = 1
	}

	conclusive := held + violated
	fmt.Printf("%s tier=%s seed=%d: cases=%d held=%d violated=%d (unlisted signatures=%d) inconclusive=%d distinct_nontrivial=%d wall=%.1fs\n",
		prop, tier, seed, len(all), held, violated, len(seenSig), inconcl, len(fps), time.Since(t0).Seconds())
	for _, w := range inconclWhy {
		fmt.Printf("  inconclusive: %s\n", w)
	}
	if only == "" && conclusive < p.MinConcl {
		fmt.Printf("INCONCLUSIVE-RUN property=%s: only %d conclusive cases (floor %d); nothing is claimed from this run\n", prop, conclusive, p.MinConcl)
		if exit == 0 {
			exit = 3
		}
	}

	if writeEvidence && only == "" {
		cov := map[string]interface{}{
			"evaluations":         evals,
			"cases":               len(all),
			"distinct_nontrivial": len(fps),
			"rule":                p.Rule,
			"samples":             samples,
			"held":                held,
			"violated_cases":      violated,
			"inconclusive":        inconcl,
			"inconclusive_why":    inconclWhy,
			"observed":            stats,
			"exhaustive":          p.Exhaustive,
		}
		for k, m := range sets {
			var l []string
			for s := range m {
				l = append(l, s)
			}
			sort.Strings(l)
			if len(l) > 200 {
				l = l[:200]
			}
			cov["set_"+k] = l
		}
		var kf []string
		for what, n := range knownSeen {
			kf = append(kf, fmt.Sprintf("%s (x%d)", what, n))
		}
		sort.Strings(kf)
		cov["known_findings_seen"] = kf
		if len(samples) == 0 {
			// no case carried a written-out sample (e.g. every sampled case was violated): fall back to the case records themselves
			fb := []interface{}{}
			for i, r := range all {
				if i >= 2 {
					break
				}
				fb = append(fb, map[string]interface{}{"case": r.Case, "name": r.Name, "verdict": r.Verdict, "observed": r.Stats})
			}
			cov["samples"] = fb
		}
		ev := map[string]interface{}{
			"property_id": prop, "tier": tier, "seed": seed, "level": p.Level, "coverage": cov,
			"assumptions": p.Assumptions, "wall_s": time.Since(t0).Seconds(), "violations": len(seenSig),
		}
		b, _ := json.MarshalIndent(ev, "", " ")
		os.MkdirAll(filepath.Join(verifDir, "evidence"), 0755)
		ioutil.WriteFile(filepath.Join(verifDir, "evidence", prop+".json"), b, 0644)
	}
	return exit
}

func trunc(s string, n int) string {
	if len(s) > n {
		return s[:n] + "…"
	}
	return s
}

// replay re-runs the case named by a replay file several times and re-prints its verdict.
func replay(path string) {
	b, err := ioutil.ReadFile(path)
	if err != nil {
		fatal("%v", err)
	}
	var w struct {
		Property string `json:"property"`
		Tier     string `json:"tier"`
		Seed     int64  `json:"seed"`
		Case     int    `json:"case"`
		Sig      string `json:"signature"`
		Detail   string `json:"detail"`
	}
	if err := json.Unmarshal(b, &w); err != nil {
		fatal("%v", err)
	}
	fmt.Printf("replaying %s case %d (tier %s, seed %d)\nrecorded signature: %s\nrecorded detail: %s\n", w.Property, w.Case, w.Tier, w.Seed, w.Sig, trunc(w.Detail, 2000))
	worker := buildWorker(false)
	p := getPlan(worker, w.Property, w.Tier)
	if p.Race || w.Case >= p.NCases {
		fmt.Println("this witness is a recorded report (race report or process crash); see the witness field of the file")
		os.Exit(1)
	}
	scratch, _ := ioutil.TempDir("", "kbreplay-")
	defer os.RemoveAll(scratch)
	hit := 0
	const n = 5
	for i := 0; i < n; i++ {
		o := runBatch(worker, p, w.Tier, w.Seed, w.Case, w.Case+1, scratch, nil, "")
		for _, r := range append(o.results, o.crashes...) {
			for _, v := range r.Violations {
				if v.Sig == w.Sig {
					hit++
					if hit == 1 {
						fmt.Printf("reproduced: %s\n  %s\n", v.Sig, trunc(v.Detail, 2000))
					}
				}
			}
		}
	}
	fmt.Printf("violation reproduced in %d of %d re-executions\n", hit, n)
	if hit > 0 {
		os.Exit(1)
	}
}

var gHdr = regexp.MustCompile(`^goroutine (\d+) (?:gp=\S+ m=\S+(?: mp=\S+)? )?\[([^\],]+)(?:, (\d+) minutes)?`)

var parkedStates = map[string]bool{"sync.Mutex.Lock": true, "sync.RWMutex.RLock": true, "sync.RWMutex.Lock": true, "semacquire": true,
	"chan receive": true, "chan send": true, "select": true, "sync.Cond.Wait": true, "sync.WaitGroup.Wait": true}

// stalledRequest reads the goroutine dump a watchdog kill (SIGQUIT) leaves behind. It answers with a signature only
// when the dump itself shows a request that can never return, whatever the machine's load was: the goroutine that
// runs the case sits INSIDE kubebrain code, parked on a synchronisation primitive for at least a minute, and no
// goroutine with a kubebrain frame (other than the sequencer's idle spin) is running, runnable or in a system call -
// nobody is on the way to release it. Anything else stays an inconclusive watchdog death.
func stalledRequest(stderr string) (sig, detail, stack string) {
	blocks := strings.Split(stderr, "\n\n")
	type g struct {
		state   string
		minutes int
		body    string
	}
	var gs []g
	for _, b := range blocks {
		first := b
		if i := strings.IndexByte(b, '\n'); i >= 0 {
			first = b[:i]
		}
		m := gHdr.FindStringSubmatch(strings.TrimSpace(first))
		if m == nil {
			continue
		}
		min, _ := strconv.Atoi(m[3])
		gs = append(gs, g{state: m[2], minutes: min, body: b})
	}
	const kb = "github.com/kubewharf/kubebrain/"
	var victim *g
	for i := range gs {
		x := &gs[i]
		if !parkedStates[x.state] || x.minutes < 1 || !strings.Contains(x.body, "verif/internal/props.") {
			continue
		}
		// the innermost non-runtime frame must be kubebrain's (the case is waiting inside the system under test)
		kbAt, propsAt := strings.Index(x.body, kb), strings.Index(x.body, "verif/internal/props.")
		if kbAt < 0 || kbAt > propsAt {
			continue
		}
		if victim == nil || x.minutes > victim.minutes {
			victim = x
		}
	}
	if victim == nil {
		return "", "", ""
	}
	for _, x := range gs {
		if (x.state == "running" || x.state == "runnable" || x.state == "syscall") && strings.Contains(x.body, kb) &&
			!strings.Contains(x.body, "collectStorageWriteEvents") && !strings.Contains(x.body, "verif/internal/") {
			return "", "", ""
		}
	}
	fn := ""
	for _, l := range strings.Split(victim.body, "\n") {
		if strings.HasPrefix(l, kb) {
			fn = l
			if i := strings.LastIndex(fn, "("); i > 0 {
				fn = fn[:i]
			}
			fn = strings.TrimPrefix(fn, kb)
			break
		}
	}
	lines := strings.Split(victim.body, "\n")
	if len(lines) > 40 {
		lines = lines[:40]
	}
	return "stall request-never-returns parked=" + victim.state + " in " + fn,
		fmt.Sprintf("the case's request has been parked inside kubebrain (%s, state %q) for %d minute(s) and no goroutine of the node is running, runnable or in a system call: the request can never return", fn, victim.state, victim.minutes),
		strings.Join(lines, "\n")
}
