// kbworker executes the cases of one property against the real kubebrain packages (built from
// /repo's working tree with -tags verif) and reports one JSON line per case.
package main

import (
	"encoding/json"
	"flag"
	"fmt"
	"io/ioutil"
	"os"

	"k8s.io/klog/v2"

	"verif/internal/harness"
	"verif/internal/props"
)

func main() {
	if len(os.Args) < 2 {
		fmt.Fprintln(os.Stderr, "usage: kbworker plan <prop> <tier> | run --prop ...")
		os.Exit(2)
	}
	switch os.Args[1] {
	case "plan":
		p, ok := props.Registry[os.Args[2]]
		if !ok {
			fmt.Fprintln(os.Stderr, "unknown property", os.Args[2])
			os.Exit(2)
		}
		pl := p.Plan(os.Args[3])
		pl.Prop = os.Args[2]
		b, _ := json.Marshal(pl)
		fmt.Println(string(b))
	case "run":
		fs := flag.NewFlagSet("run", flag.ExitOnError)
		prop := fs.String("prop", "", "")
		tier := fs.String("tier", "quick", "")
		seed := fs.Int64("seed", 1, "")
		from := fs.Int("from", 0, "")
		to := fs.Int("to", 0, "")
		out := fs.String("out", "", "")
		scratch := fs.String("scratch", os.TempDir(), "")
		only := fs.String("only", "", "")
		fs.Parse(os.Args[2:])
		p, ok := props.Registry[*prop]
		if !ok {
			fmt.Fprintln(os.Stderr, "unknown property", *prop)
			os.Exit(2)
		}
		// klog is not an oracle: silence it (Fatal still exits the process)
		klogFlags := flag.NewFlagSet("klog", flag.ContinueOnError)
		klog.InitFlags(klogFlags)
		klogFlags.Set("logtostderr", "false")
		klogFlags.Set("alsologtostderr", "false")
		klogFlags.Set("stderrthreshold", "FATAL")
		klog.SetOutput(ioutil.Discard)
		klog.SetOutputBySeverity("FATAL", os.Stderr) // a klog.Fatal ends the process: its message is the witness
		harness.ScratchRoot = *scratch
		em, err := harness.NewEmitter(*out)
		if err != nil {
			fmt.Fprintln(os.Stderr, err)
			os.Exit(2)
		}
		for i := *from; i < *to; i++ {
			c := harness.NewCase(*prop, *tier, *seed, i)
			name := p.Name(c)
			c.R.Name = name
			if *only != "" && name != *only {
				continue
			}
			idx := i
			em.Emit(map[string]interface{}{"start": &idx, "name": name})
			p.Run(c)
			em.Emit(c.R)
		}
	}
}
