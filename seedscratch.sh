#!/bin/bash
# Like seedrun.sh, but never touches /repo (for use while a sweep is running from /repo): confirms the seeded change in
# a scratch worktree and runs the named checks from a scratch copy of /verif whose go.mod points at that worktree.
# usage: seedscratch.sh <seed-dir-under-/tmp/seed> <name> <check ids...>
export GOFLAGS=-mod=mod GOPROXY=off GOSUMDB=off GOTOOLCHAIN=local
SRC=/tmp/seed/$1; NAME=$2; shift 2
S=$SRC/SEED
[ -f $S/patch.diff ] || { echo "no patch in $S"; exit 2; }
DEMO=$(python3 -c "import json;print(json.load(open('$S/meta.json')).get('demo_file',''))")
DEMOCMD=$(python3 -c "import json;print(json.load(open('$S/meta.json')).get('demo_command',''))")
V=/tmp/seedverify/$NAME
rm -rf $V; git -C /repo worktree prune; git -C /repo worktree add -q --detach $V HEAD || exit 2
cd $V
git apply $S/patch.diff || { echo "PATCH DOES NOT APPLY"; exit 2; }
go build ./... || { echo "DOES NOT BUILD"; exit 2; }
mkdir -p $(dirname $V/$DEMO); cp $S/$(basename $DEMO) $V/$DEMO
DEMOCMD=${DEMOCMD//$SRC/$V}; DEMOCMD=$(echo "$DEMOCMD" | sed -E "s#cd <[^>]*>#cd $V#g; s#cd DIR#cd $V#g")
if [ -z "$SKIPCONFIRM" ]; then
( cd $V && eval "$DEMOCMD" ) > /tmp/seedverify/$NAME.with.log 2>&1; W=$?
git apply -R $S/patch.diff
( cd $V && eval "$DEMOCMD" ) > /tmp/seedverify/$NAME.without.log 2>&1; WO=$?
echo "demo exit with patch=$W (want !=0), without patch=$WO (want 0)"
git apply $S/patch.diff; rm -f $V/$DEMO
go test -vet=off -count=1 ./pkg/... > /tmp/seedverify/$NAME.suite.log 2>&1
echo "suite failures other than TestGetHost: $(grep -E "^\s*--- FAIL" /tmp/seedverify/$NAME.suite.log | grep -v TestGetHost | tr '\n' ' ')"
else rm -f $V/$DEMO; fi
# scratch copy of /verif against the patched worktree
X=/tmp/verifx-$NAME
rm -rf $X; mkdir -p $X; rsync -a --exclude .git --exclude bin --exclude replays --exclude seeded --exclude evidence /verif/ $X/
sed -i "s#=> /repo#=> $V#" $X/go.mod
( cd $X && ./setup.sh ) || { echo "SCRATCH BUILD FAILED"; exit 2; }
for c in "$@"; do
  ( cd $X && ./bin/kbcheck $c --tier quick ) > /tmp/seedverify/$NAME.$c.log 2>&1; echo "check $c exit=$? : $(grep -m2 signature /tmp/seedverify/$NAME.$c.log | tr '\n' ' ' | cut -c1-300)"; tail -1 /tmp/seedverify/$NAME.$c.log
done
cd /; rm -rf $X; git -C /repo worktree remove --force $V
mkdir -p /verif/seeded/$NAME; cp $S/patch.diff /verif/seeded/$NAME/; cp $S/$(basename $DEMO) /verif/seeded/$NAME/; cp $S/meta.json /verif/seeded/$NAME/agent_meta.json
