#!/bin/sh
# Builds the driver from files on disk only (offline) and warms the build cache for the worker.
set -e
cd "$(dirname "$0")"
export GOFLAGS=-mod=mod GOPROXY=off GOSUMDB=off GOTOOLCHAIN=local
mkdir -p bin evidence replays
go build -o bin/kbcheck ./cmd/kbcheck
go build -tags verif -o bin/kbworker ./cmd/kbworker
