#!/usr/bin/env python3
# Regenerates MANIFEST.json from the table below (kept next to the code so the two stay in step).
import json, subprocess
ALL = ["C%02d" % i for i in range(1, 21)]
CHECKS = {
 "C01": ("exploration", "history recording at the client boundary + offline chain/dump/unjustified-failure oracle + porcupine linearizability check per key (memkv, Badger, TiKV mock)", "5 C01",
   "Held on the concurrent histories actually produced (counts in evidence): per-key success chain, engine dump equality, no certainly-unjustified failure, no failed compare naming the compared revision, every key's sub-history linearizable as a conditional register (porcupine) on all three engines, final read. Sampling of schedules, not enumeration.",
   "call/return stamps come from one atomic counter; engine contents read through KvStorage.Iter; TiKV is the in-process mock"),
 "C02": ("exploration", "history recording + offline uniqueness / real-time-order / monotonicity checker, storage-boundary observer", "5 C02",
   "Held on the concurrent histories produced: revision uniqueness over responses and over batches observed at the storage boundary, real-time order of every (returned-before-called) pair, per-key monotonicity, header >= data.",
   "revisions of failed guarded writes are used only when the response determines them"),
 "C04": ("exploration", "online assertion at the storage boundary + deposit-conservation monitor on a verif hook + snapshot check of concurrent reads", "5 C04",
   "Held on executions with delayed/out-of-order commits, injected definite storage errors, unknown outcomes (incl. faults on the retry loop's repair writes), future and negative expected revisions (also through etcd Txn), requests whose context is already cancelled: read revision never reached an unfinished write; every dealt revision resolved exactly once; concurrent lists are snapshots; probe write becomes readable; no execution ended with every client parked and no request returning (stall monitor).",
   "faults are injected by a wrapper at the storage.KvStorage boundary; wedge verdict by conservation of notify deposits (hook); the stall monitor needs zero finished operations AND every client goroutine parked at an unchanged synchronisation point over 5 looks, slowness alone is inconclusive"),
 "C03": ("exploration", "differential run against an executable MVCC reference model over generated sequential histories", "5 C03",
   "Held (apart from the recorded deletion-marker finding) on generated sequential histories with prefix-related key names and hostile values on single- and multi-partition engines: every Get/List/limited List/Count at every sampled reported revision equals the reference snapshot, before and after more writes and a compaction below, and after a transient iterator error retried by the scanner.",
   "reads only at revisions the node reported and not below the compaction floor"),
 "C11": ("exploration", "lock-step differential run of generated operation sequences against a sorted-map reference, per engine and behind the metrics wrapper", "5 C11",
   "Held on generated batch/get/delete/iterate sequences on memkv, Badger and the TiKV mock, each also behind the production metrics wrapper with the real Prometheus client: all-or-nothing batches, conditions evaluated exactly and reported as failed conditions, iterators bounded, ordered and snapshot-consistent; a batch overtaken by another writer between its begin and its commit (TiKV) is still all-or-nothing; concurrent readers do not disturb each other and concurrent conditional writers are atomic (exactly one put-if-absent wins, no CAS increment is lost).",
   "only the documented contract of pkg/storage/interface.go is demanded; TTL always 0; ops of one batch touch distinct keys"),
 "C08": ("exploration", "monitor over generated compaction/read sequences: floor=max(accepted), stored record and refusal of reads below it", "5 C08",
   "Held on generated sequences of compaction requests (increasing, repeated, older, zero, above current) interleaved with writes: the stored record never dropped below the highest accepted revision and every List/ListByStream below it was refused, on the compacting node and on a second node over the same store, including streams spanning several 300-kv batches (no data before the refusal), and when two compaction requests overlap (the first held at an access to the record while the second completes); reads at/above it equal the reference snapshot.",
   "only compactions that returned without error raise the monitor's floor"),
 "C10": ("exploration", "generated inputs with round-trip/order oracles on the real coder, real memkv iteration and Backend.List", "5 C10",
   "Held on generated keys/revisions/bounds over the documented alphabet: round trip, order preservation, index-first contiguity, exact enclosure of raw ranges and prefixes by the computed internal bounds, also through Backend.List on engines that split the range into several partitions.",
   "alphabet = bytes > '$'; PrefixEnd's documented no-successor sentinel (empty / all-0xff prefix) is excluded as a bound"),
 "C12": ("exploration", "lock-step differential execution of one request script on all engines, transcript equality", "5 C12",
   "Held on generated sequential scripts executed in lock-step on memkv, Badger, TiKV mock, their metrics-wrapped variants, a TiKV mock pre-split into regions and a multi-partition memkv, keys written with a ttl (Event records) included: identical outcomes, revisions, range results, compaction answers and watch events.",
   "error texts are not compared, only error vs response; TiKV is the in-process mock"),
 "C13": ("exploration", "controlled partitioning (GetPartitions override / pre-split mock regions) with differential comparison against the unpartitioned reference snapshot and stream-framing monitor", "5 C13",
   "Held on generated histories under generated partitionings (borders on index records, inside one key's versions, at never-stored keys, shuffled): List, Count, whole-interval stream, per-advertised-partition streams and the etcd range stream each contain every qualifying key once with the right version; batches name the read revision; one terminator, last; a cleanly terminated stream after a transient iterator error (partition retried) still carries each key once.",
   "borders are the forms an engine splitting at existing keys can produce; TiKV regions are those of the mock cluster"),
 "C05": ("exploration", "event-stream monitor against acknowledged-write ground truth; interleavings placed by blocking verif hook points; overflow race placed at the removal hook", "5 C05",
   "Held on stress (also on a fresh backend taking over an existing store with an empty event cache), hook-placed and overflow executions (counts in evidence): every accepted watch received a prefix of the matching acknowledged changes with exact payloads, strictly increasing, complete through an acknowledged sentinel while open; refusals only outside the cached window.",
   "hook callbacks block only between lock-protected sections (a descheduled goroutine), so no impossible interleaving is manufactured"),
 "C06": ("exploration", "client-boundary reconstruction check: List@R + watch events <= R' == List@R', sentinel-delimited, under concurrent writers and compaction", "5 C06",
   "Held on observer loops run against concurrent writers (successes and failures) and a compactor on memkv, Badger and the TiKV mock: the reconstruction equals the later list exactly.",
   "events are delivered in revision order (C05), which makes the sentinel a logical completeness marker"),
 "C07": ("fault_enumeration", "enumeration of every compaction delete position x {fail one, die after} on identically rebuilt stores, differential reads against the reference model", "5 C07",
   "Every delete call position of every generated history's compaction was faulted (fail-one generic / fail-one failed-compare / compactor death + new backend / a client re-create placed right before every index-record removal); after each, all reads at revisions >= R, a second clean compaction, the same reads, model-chosen writes on every key and records outside the compaction ranges were compared with the reference. Concurrent writer/compactor variant sampled.",
   "a compactor death is modelled as all later deletes failing plus a new backend over the same store; histories are sampled, positions within a history are exhaustive (counted across parallel workers on multi-partition engines)"),
 "C09": ("fault_enumeration", "enumeration of unknown-outcome faults over every write batch x {applied, not applied} (+ second-order faults on the repair write), convergence monitor on hook-observed quiescence", "5 C09",
   "Every write batch position of every generated history was answered 'outcome unknown' in both variants, plus three second-order variants on the repair write; the client always got an error, later writes flowed, compaction stayed below the unresolved revision, and after hook-observed quiescence store and event stream converged to the storage-boundary ground truth (event payloads included). Concurrent runs with paired unknown outcomes answered out of revision order and a continuous compactor sampled in every 4th history.",
   "unknown outcomes are injected at the storage.KvStorage boundary; retry intervals shortened through the verif hook"),
 "C19": ("exploration", "Go race detector over the concurrent workloads of the other checks (worker built with -race), reports deduplicated by innermost kubebrain function pair", "5 C19",
   "No data race report with a kubebrain frame was produced while the concurrent workloads (writers, readers, watchers joining/leaving/overflowing, overflow with subscriber churn, catch-up from a small wrapping watch cache, two complete nodes started through pkg/endpoint (real election, syncer, etcd proxy, Prometheus client) under concurrent gRPC clients, compaction, async retry, lock candidates, follower taking over, leader/follower pair with the real revision syncer) ran under the race detector on memkv and Badger; counts of executions and report blocks in evidence.",
   "a race detector sees only executed interleavings; reports wholly inside the TiKV mock or the harness are listed, not counted"),
 "C14": ("exploration", "complete step-interleaving enumeration on memkv against a register model (lock-step) + porcupine linearizability check of recorded concurrent lock histories", "5 C14",
   "All interleavings of 2 and of 3 candidates x 2 acquire rounds, of 2 candidates retrying a rejected write without a fresh Get, and of 2-3 candidates ending with client-go's release (an Update naming no holder, without a fresh Get), were executed on memkv through the real resourcelock.Interface and agreed with a compare-and-swap register model step by step; sampled interleavings on Badger, the TiKV mock and locks obtained from real backends; recorded concurrent histories are linearizable as a CAS register (porcupine).",
   "lease timing not modelled (candidates always try); enumeration complete only at the stated bound on memkv"),
 "C15": ("exploration", "hand-over scenarios (fail-over and Badger restart) driven through the real lock, monitor comparing the new leader's revisions with an engine dump and the reference state", "5 C15",
   "Held on generated old-leader histories with bursts of failed writes and lock renewals followed by a fail-over (all engines; to nodes that stood by polling the lock, in half of them also serving concurrent follower reads all along; a third continuing with a second term and a second fail-over), a close+reopen (Badger), or a restart through the real Campaign / on-elected callback with requests over gRPC: the new leader's start and first revisions exceed every stored revision, guarded writes on existing keys succeed, earlier writes are listed.",
   "in 7 of 8 cases the election is driven in-process in client-go's call order and leader.go's on-elected action is applied by the harness; every 8th case uses the real Campaign loop"),
 "C16": ("exploration", "differential run of generated etcd request histories against an etcd-semantics reference model at the real etcd.RPCServer handlers, incl. a generated family of unsupported transactions with a state-unchanged monitor", "5 C16",
   "Held (apart from the recorded Count finding) on generated histories of the four Kubernetes transaction shapes with correct/stale/zero expectations, point/range/limited/old-revision reads, count-only, a prefix watch with prev_kv, 16 kinds of unsupported transactions which must be rejected and leave the store unchanged, and concurrent etcd clients whose failed compares never return the compared revision while concurrent Range answers are the state at their header revision.",
   "handlers are called directly; EnableEtcdCompatibility on; the concurrent failure-branch rule is run on memkv/Badger only (the TiKV mock maps write conflicts to failed compares)"),
 "C17": ("exploration", "expiry monitor over an engine dump + reads + watch stream, with TTL shortened through the verif hook / the scanner's public config, ages measured on the monotonic clock", "5 C17",
   "Held on generated histories mixing Event keys with look-alike keys on engines without native TTL (built-in compaction expiry, scanner driven directly and through a backend) and with native TTL (memkv, Badger), plus 1h-TTL controls: whatever lost records was an Event under <prefix>/events/, older than the TTL, removed wholly, creatable again, and no watch event was produced; also for events deleted and created again, with a client update placed inside the expiry and with a storage error on the removal of an index record.",
   "expiry is never demanded, only constrained; a key counts as younger than the TTL only if its newest write BEGAN less than TTL before the observation"),
 "C18": ("exploration", "call-recording backend + scripted peers under the real revision syncer (role matrix); two-node follower-read monitor with interleavings placed by the revision verif hooks", "5 C18",
   "Held on the full role matrix (every request type of both APIs, watches from the next revision and from revision 0, x leader/follower x proxy on/off x leader reachable/unreachable/400/500/answer cut off/answer with a foreign body) (incl. a recorded leader that is a real node which is not leading, answered by pkg/server's real /status handler) and on two-node runs with concurrent follower reads while the leader writes, including the placed schedules 'reader delayed between fetch and set' and 'five readers setting different revisions at the same instant', and on production pairs (two nodes started through pkg/endpoint with the real election, syncer and etcd proxy; requests to the follower's client port over gRPC).",
   "the etcd proxy and the election are stubs; the leader's status endpoint re-serves the logic of server.revisionHandler"),
 "C20": ("exploration", "generated hostile protobuf-round-tripped requests against a node wired with the real Prometheus client; panic/crash capture, metric label-set recorder (per node and process-wide), probe write + conservation monitor after every request; metric call-site tour over two real nodes", "5 C20",
   "Held on a burst of concurrent first requests and on generated hostile requests to both APIs (every 4th case over a real loopback gRPC connection with the production interceptors) with production metrics: every call returned, nothing panicked (in the handler or in background goroutines), no metric name was emitted with two label sets, and after every request a probe write became readable and watchable. Every 24th case tours the metric call sites a healthy leader never reaches (two real nodes from server.NewServer, follower role, faults, overflow) under a process-wide metric-signature table; names reached are listed in evidence.",
   "3 of 4 cases call handlers in-process; election stubbed; reached request types and metric names are listed in evidence"),
}
def cmd(p, tier): return "./bin/kbcheck %s --tier %s" % (p, tier)
hooks = subprocess.run(["git","-C","/repo","log","--format=%H %s"],capture_output=True,text=True).stdout.splitlines()
hook_commits=[l.split()[0] for l in hooks if "verif hooks" in l]
m = {
 "version": 1,
 "setup_cmd": "./setup.sh",
 "hooks": {"guard": "verif", "enable": "go build -tags verif (the driver builds ./cmd/kbworker against /repo via a replace directive)",
           "baseline_off_cmd": "./baseline_off.sh", "source_commits": hook_commits, "add_only": True},
 "checks": [], "not_applicable": [],
 "notes": "All checks are runtime monitors over executions of the real kubebrain packages built from /repo's working tree (see DESIGN.md). known_findings.json lists recorded and fixed defects.",
}
for p in ALL:
    if p in CHECKS:
        lvl, tech, ref, text, note = CHECKS[p]
        m["checks"].append({"property_id": p, "quick_cmd": cmd(p,"quick"), "thorough_cmd": cmd(p,"thorough"),
            "evidence_file": "/verif/evidence/%s.json" % p, "replay_cmd_template": "./bin/kbcheck replay {path}",
            "level_claimed": {"category": lvl, "text": text, "design_ref": "DESIGN.md section " + ref},
            "level_note": note, "technique": tech})
    else:
        m["not_applicable"].append({"property_id": p, "reason": "check not yet built in this revision of /verif; nothing is claimed for it"})
json.dump(m, open("/verif/MANIFEST.json","w"), indent=1)
print("checks:", len(m["checks"]), "not_applicable:", len(m["not_applicable"]))
