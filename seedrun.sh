#!/bin/bash
# usage: seedrun.sh <seed-dir-under-/tmp/seed> <name-for-/verif/seeded> <check ids...>
# 1. confirms the seeded change in a fresh scratch worktree (demo fails with it, passes without, suite passes with it)
# 2. applies it to /repo, runs the named checks (quick), and undoes it straight afterwards.
export GOFLAGS=-mod=mod GOPROXY=off GOSUMDB=off GOTOOLCHAIN=local
SRC=/tmp/seed/$1; NAME=$2; shift 2
S=$SRC/SEED
[ -f $S/patch.diff ] || { echo "no patch in $S"; exit 2; }
DEMO=$(python3 -c "import json;print(json.load(open('$S/meta.json')).get('demo_file',''))")
DEMOCMD=$(python3 -c "import json;print(json.load(open('$S/meta.json')).get('demo_command',''))")
V=/tmp/seedverify/$NAME
rm -rf $V; git -C /repo worktree prune; git -C /repo worktree add -q --detach $V HEAD || exit 2
cd $V
git apply $S/patch.diff || { echo "PATCH DOES NOT APPLY"; exit 2; }
go build ./... || { echo "DOES NOT BUILD"; exit 2; }
mkdir -p $(dirname $V/$DEMO); cp $S/$(basename $DEMO) $V/$DEMO
DEMOCMD=${DEMOCMD//$SRC/$V}; DEMOCMD=$(echo "$DEMOCMD" | sed -E "s#cd <[^>]*>#cd $V#g; s#cd DIR#cd $V#g")
echo "== demo with patch: $DEMOCMD"
( cd $V && eval "$DEMOCMD" ) > /tmp/seedverify/$NAME.with.log 2>&1; W=$?
git apply -R $S/patch.diff
echo "== demo without patch"
( cd $V && eval "$DEMOCMD" ) > /tmp/seedverify/$NAME.without.log 2>&1; WO=$?
echo "demo exit with patch=$W (want !=0), without patch=$WO (want 0)"
git apply $S/patch.diff; rm -f $V/$DEMO
echo "== suite with patch"
go test -vet=off -count=1 ./pkg/... > /tmp/seedverify/$NAME.suite.log 2>&1
echo "suite failures other than TestGetHost: $(grep -E "^\s*--- FAIL" /tmp/seedverify/$NAME.suite.log | grep -v TestGetHost | tr '\n' ' ')"
cd /; git -C /repo worktree remove --force $V
# run checks against /repo with the patch applied
git -C /repo apply $S/patch.diff || { echo "PATCH DOES NOT APPLY TO /repo"; exit 2; }
cd /verif
for c in "$@"; do
  ./bin/kbcheck $c --tier quick > /tmp/seedverify/$NAME.$c.log 2>&1; echo "check $c exit=$? : $(grep -m2 signature /tmp/seedverify/$NAME.$c.log | tr '\n' ' ')"; tail -1 /tmp/seedverify/$NAME.$c.log
done
git -C /repo checkout -- .
git -C /repo status --short | head -3
mkdir -p /verif/seeded/$NAME; cp $S/patch.diff /verif/seeded/$NAME/; cp $S/$(basename $DEMO) /verif/seeded/$NAME/; cp $S/meta.json /verif/seeded/$NAME/agent_meta.json
