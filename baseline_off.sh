#!/bin/sh
# Runs the repository's pinned suite with the verif build tag OFF and compares with BASELINE.json.
export GOFLAGS=-mod=mod GOPROXY=off GOSUMDB=off GOTOOLCHAIN=local
OUT=$(mktemp)
(cd /repo && go test -json -vet=off -count=1 -timeout 25m ./... ) > "$OUT" 2>/dev/null
python3 - "$OUT" <<'PY'
import json,sys
base=set(json.load(open('/root/.vp/BASELINE.json'))['stable_pass'])
res={}
for l in open(sys.argv[1]):
    try: e=json.loads(l)
    except Exception: continue
    if e.get('Test') and e.get('Action') in ('pass','fail','skip'):
        res[e['Package']+'::'+e['Test']]=e['Action']
passed={k for k,v in res.items() if v=='pass'}
missing=sorted(base-passed)
print("baseline tests passing: %d of %d" % (len(base&passed), len(base)))
for m in missing: print("NOT PASSING:", m)
sys.exit(1 if missing else 0)
PY
rc=$?
rm -f "$OUT"
exit $rc
