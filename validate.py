#!/opt/veriftools/pyvenv/bin/python
import json,jsonschema,sys,glob
jsonschema.validate(json.load(open('/verif/MANIFEST.json')), json.load(open('/root/.vp/MANIFEST.schema.json')))
es=json.load(open('/root/.vp/EVIDENCE.schema.json'))
for f in sorted(glob.glob('/verif/evidence/*.json')):
    try:
        jsonschema.validate(json.load(open(f)), es); 
    except Exception as e:
        print('INVALID', f, str(e)[:300]); sys.exit(1)
print('manifest and', len(glob.glob('/verif/evidence/*.json')), 'evidence files valid')
