#!/usr/bin/env python3
# Writes seeded/<id>/meta.json from the sub-agent's own meta (agent_meta.json), the confirmation done by
# seedrun.sh (demo fails with / passes without the patch, suite passes with it) and the check results in sweep.txt.
import json, os, glob, re
NOTES = {
 "C02": "missed by C02 at first (per-key monotonicity was judged on revision-sorted responses only); the storage-boundary monotonicity monitor was added",
 "C03": "missed by C03 at first (single-partition engines only); C03 now also runs on multi-partition engines",
 "C04": "missed by C04 at first (no unknown outcomes in its workload); every 4th C04 case now injects unknown outcomes and errors on repair writes",
 "C06": "not caught by C06 itself: the change needs an unknown-outcome storage fault, which C06's quantifier (successful writes, failed writes, compactions) does not contain; C09 catches it",
 "C08": "missed by C08 at first (one node only); reads on a second node over the same store were added",
 "C11": "missed by C11 at first (sequential sequences only); concurrent-reader cases were added",
 "C14": "missed by C14 at first (programs always Get before a write); programs retrying a rejected write without a fresh Get were added",
 "C15": "missed by C15 at first (the new leader was always a fresh backend); in half of the fail-over cases the new leader now serves concurrent follower reads first; detection is probabilistic (a few cases per quick run at most)",
 "C16": "missed by C16 at first (sequential histories only); concurrent etcd clients with the failure-branch rule were added; the original patch was rebased onto the tree that contains fix f2eb96e",
 "C17": "missed by C17 at first; an update is now placed between the expiry scan reading an event's index and deleting it",
 "C18": "missed by C18 at first (the 'leader answers 400' mode used a stand-in server); a mode using the real /status handler of a node that is not leading was added",
 "C19": "missed by C19 at first; an overflow workload with subscribers joining and leaving was added",
 "C03-2": "not caught by C03 itself: the change only manifests when a compaction delete fails (a storage fault), which C03's quantifier (histories, inputs) does not contain; C07's fault enumeration catches it",
 "C07-2": "missed by C07 at first; a third kind of execution was added at every index-record removal: a client re-creates the key right before the removal (placed through the storage wrapper)",
 "C08-2": "not caught by C08 itself: the change only manifests while an unknown-outcome write is pending in the retry queue (a storage fault), which C08's quantifier (histories, inputs) does not contain; C09 catches it",
 "C14-2": "missed by C14 at first (the compare/write overlap needs goroutines inside the commit at the same instant); C14's concurrent cases now run 25-50 rounds with a per-round barrier, and C11 got concurrent conditional-writer cases (put-if-absent / CAS-increment atomicity)",
 "C15-2": "caught by the real-campaign cases of C15 (added in the same round: restart of a node through server.NewServer's real Campaign and on-elected callback, requests over gRPC, a metrics sink that is slow inside the callback)",
 "C17-2": "missed by C17 at first (no storage faults in its histories); a one-shot storage error on the expiry's removal of an event's index record was added; C07 catches the general form",
 "C18-2": "missed by C18 at first; a third two-node mode was added in which five readers holding different fetched revisions are held right before SetCurrentRevision and released through a spin barrier at the same instant (150 rounds per case); all such cases catch it",
 "C20-2": "missed by C20 at first (requests were sent one at a time); every case now starts with a burst of 8 concurrent first requests, which in the first case of a worker process are concurrent first-ever emissions of their metrics",
 "C12-2": "missed by C12 at first (single-partition engines only); a TiKV mock pre-split into regions and a multi-partition memkv were added to the lock-step engine list",
 "C03-3": "missed by C03 at first (no iterator faults); every 6th C03 case now ends with a List and a streamed range during which one iterator answers a single transient error (the scanner retries): a successful answer must still equal the snapshot",
 "C04-3": "missed by C04 at first (every request context was live; a wedged store hangs the clients, which the driver's watchdog reports as inconclusive); a quarter of the C04 cases now issue 6% of their writes with an already cancelled context, and a stall monitor turns 'no request returned for 5 looks 3 s apart while every client goroutine is parked at the same synchronisation point' into a violation with the goroutine dump",
 "C05-3": "not caught by C05 itself: the change only manifests after an unknown-outcome commit of a delete (a storage fault), which C05's quantifier does not contain; C09 got an event payload check against the storage-boundary log and catches it",
 "C07-3": "missed by C07 at first (engines reporting one partition only); 3 of 7 C07 histories now run on engines reporting several partitions (TiKV mock pre-split, memkv behind a GetPartitions override) with borders inside keys' versions",
 "C08-3": "missed by C08 at first (fewer keys than one 300-kv stream batch); every 8th C08 case now holds 650-950 more keys",
 "C09-3": "missed by C09 at first (one unknown outcome at a time); every 4th C09 history is now a concurrent run with paired unknown outcomes (the older one answered late, the younger at once), a compactor requesting Compact(max) throughout and a compaction-cap oracle over the set of unresolved revisions",
 "C13-3": "missed by C13 at first (no iterator faults); every 5th C13 case now ends with whole-interval streams during which one partition worker's iterator answers a single transient error",
 "C16-3": "missed by C16 at first (engines reporting one partition only); a pre-split TiKV mock and a multi-partition memkv were added to C16's engine list",
 "C19-3": "missed by C19 at first (watch caches never wrapped while watches were catching up); a workload with an 8-64 event cache, two continuous writers and four clients registering watches from inside the cache was added",
 "C10-3": "missed by C10 at first (its Backend.List part ran on memkv only); the prefix and raw-range reads of C10 now also run on a TiKV mock pre-split into regions and on a memkv reporting several partitions; C13, C16 and C03 caught it as it was",
 "C12-3": "missed by C12 at first (no key of its scripts was written with a ttl); two of the seven script keys are now Event records (<prefix>/events/...)",
 "C14-3": "missed by C14 at first (no release-shaped update in its programs); programs ending in client-go's release (an Update naming no holder, sent without a fresh Get) were added to the enumeration (2x gwgr, 2x gwr, 3x gwr), the samples and the concurrent porcupine histories",
 "C15-3": "missed by C15 at first (the future leader never looked at the lock before taking it); nodes standing by now poll the lock during the old leader's term as client-go's election loop does, and a third of the fail-over cases continue with a second fail-over to a third node",
 "C17-3": "missed by C17 at first (events were only created once); some events are now deleted and created again before the first compaction, so the index record that must expire was written over a deletion marker",
 "C18-3": "missed by C18 at first (watches were opened from the next revision only); etcd and native watches from revision 0 ('from now') were added to the role matrix",
 "C02-4": "caught as it was (C02 header >= data on concurrent lists); the same site as seeds C06-2 / C16-4 seen from another property",
 "C04-4": "not caught by C04 itself: the hub dead-locks only once a subscriber's buffer overflows (10 100 undelivered batches) and reads stall only after 100 000 more batches; C04's workload has no watchers. C05's overflow cases catch it at once (open-stream-stopped-short), as do C19's overflow workloads and C20's tour",
 "C05-4": "missed by C05 at first (every node under test had written its own history, so its event cache was never empty at a non-zero revision); every 5th stress case now replaces the node by a fresh backend over the same store (restart / fail-over) and asks for watches from exactly the current revision, just below, the next one and zero on every prefix",
 "C06-4": "the same change as seed C05-2 (filterByPrefix filtering in place), produced independently for C06; caught by C06 as it was",
 "C08-4": "missed by C08 at first (requests were issued one after the other); every 8th C08 case now overlaps two compaction requests, the first held at a read of / write to the compaction record. This exposed defect 24 on the unchanged tree (fixed in 61c5f44); the seed was rebased onto the fixed tree (patch.original.diff is the sub-agent's patch against 1ef9d67)",
 "C09-4": "caught as it was (C09's second-order faults on the repair write + event payload check)",
 "C13-4": "caught as it was (C13 per-advertised-partition streams; C03 on partitioned engines)",
 "C16-4": "the same change as seed C06-2 (List reads the revision again for the header), produced independently for C16; missed by C16 at first (its concurrent cases had no readers) -> two concurrent etcd Range readers were added whose answers must be the key's state at their header revision; C06 and C04 caught it as it was",
 "C19-4": "the same change as seed C05-2, produced independently for C19; caught as it was",
 "C20-4": "caught as it was (a negative limit is one of C20's hostile values; the panic in a scanner worker goroutine kills the worker, which the driver reports as a crash)",
 "C01-4": "not caught by C01 itself: the change only manifests after an unknown-outcome (applied) delete has been repaired by the retry loop, a storage fault outside C01's quantifier; C09 catches it (watch-stream-did-not-converge)",
 "C03-4": "caught as it was (C03 pass C: reads at and above the compaction revision after a compaction below the head; C07)",
 "C07-4": "missed by C07 at first (the faulty engine was seen directly, not through the production storage metrics wrapper); 3 of 9 C07 histories now put the metrics wrapper between the backend and the faulty engine",
 "C10-4": "missed by C10 at first (every node under test used the harness's key prefix); every 4th C10 case now compacts nodes configured with the key prefixes \"\" (the --key-prefix default), \"/\", with/without trailing slash, with a doubled slash and relative, and checks in the engine dump that exactly the records under the prefix were reached",
 "C11-4": "missed by C11 at first (no writer ever slipped between a batch's begin and its commit); on TiKV, where an open batch holds no engine lock, a third of the batches are now overtaken by another writer committing to one of their keys before they commit",
 "C12-4": "the stale compaction request never returns on memkv (store mutex taken in BeginBatchWrite and never released): the worker hangs until the watchdog kills it, which used to be an inconclusive death. The driver now reads the SIGQUIT goroutine dump: a case goroutine parked inside kubebrain on a synchronisation primitive for >= 1 minute while no goroutine of the node is running, runnable or in a system call is reported as 'stall request-never-returns ...'",
 "C14-4": "caught as it was (C14 porcupine histories on TiKV, C01 chain, C11 concurrent conditional writers)",
 "C15-4": "missed by C15 at first (no storage metrics wrapper, no oracle failure); every third fail-over now runs behind the production metrics wrapper with the engine's timestamp oracle failing once during the take-over (the failed attempt is repeated)",
 "C17-4": "missed by C17 at first (the second compaction always named the current revision); in a third of the cases it now names an older revision than the first one",
 "C18-4": "missed by C18 at first (the leader's answer was always complete or absent); matrix modes 'a 200 answer cut off half-way through its body' and 'a 200 answer whose body is not the revision document' were added. The second exposed defect 31 on the unchanged tree (fixed in 04202ba); the seed was rebased onto the fixed tree (patch.original.diff is the sub-agent's patch)",
 "C02-5": "the same mechanism as seed C15-2 (leader flag raised before SetCurrentRevision), produced independently for C02; caught by C15's real-campaign cases; not by C02, whose workload has no election",
 "C04-5": "the same mechanism as seeds C15-2 / C02-5, produced independently for C04; caught by C15's real-campaign cases",
 "C05-5": "not caught by C05 itself (a role check in the native server, above the backend C05 drives); C18's role matrix catches it (follower-served-watch-from-own-history request=brain.Watch)",
 "C06-5": "missed at first by every check (the real etcd proxy had only just been put under test and no watch through a follower started in the past); C18's production pairs now do list-then-watch through the follower: the watch must begin with the first change at or after its start revision. Not C06 (its observers talk to the leader's backend)",
 "C08-5": "missed by C08 at first (compactions were sent to the backend, and only the older request was ever held); the overlapping-compactions cases now hold either request and send them through the native server's Compact handler in half of the cases",
 "C09-5": "caught as it was (C09 second-order fault 'repair write unknown, not applied')",
 "C13-5": "missed by C13 at first (range streams through the etcd Watch API were opened one at a time); every 4th case now streams all advertised pieces at the same time, one Watch stream per piece, and checks the watch id of every response",
 "C16-5": "caught as it was (C16's unsupported family contains the supported shapes with other compare operators)",
 "C18-5": "caught as it was (C18's role matrix: brain.ListPartition served without adopting the leader's revision)",
 "C20-5": "missed by C20 and C05 at first (no watch ever had to catch up on more than 30 000 cached events); C05 got large catch-up cases; the blocked registration shows up as the driver's post-mortem 'stall request-never-returns' verdict",
 "C01-5": "not caught by C01 itself (its workload runs no compaction); C07's re-create placement catches it now that 3 of 9 C07 histories run behind the production metrics wrapper (key-not-writable-normally-after-compaction)",
 "C03-5": "caught as it was (C03 and C13 on engines reporting several partitions compare range results in order)",
 "C07-5": "caught as it was (C07 fault enumeration)",
 "C10-5": "missed by C10 and C19 at first (the coder was only ever called by one goroutine at a time, and concurrent workloads use keys longer than the shared array's spare capacity); C10 got concurrent round trips of 0-12 byte keys, C19 the same workload under the race detector",
 "C11-5": "missed by C11 at first (no zero-length values); values of length 0 are now used on the engines that accept them. This also exposed defect 32 on the unchanged tree (memkv compare-and-delete on a key that is gone, fixed in 839069c)",
 "C12-5": "not caught by C12 itself (the ttl only matters after an hour); C17 catches it (events deleted and created again, added for seed C17-3)",
 "C14-5": "missed by C14 at first (nothing but the candidates' own steps touched the lock objects); programs with a request for the node's election info between the loop's Get and its write were added, on locks of real backends whose election service answers them",
 "C15-5": "missed by C15 at first (future expectations were filtered out of the old leader's history); refused writes with expected revisions 1e9..5e17 ahead are now part of it",
 "C17-5": "caught as it was (look-alike key <prefix>/eventsx/y)",
 "C19-5": "missed by C19 at first (single-partition engines only, no failing scans); a workload of scans on multi-partition engines whose partition workers fail at the same time (iterator errors, cancelled contexts) was added",
 "C20-3": "missed by C20 at first: the node ends the process through klog.Fatal, which the driver used to classify as an inconclusive child death; the worker now lets klog FATAL lines through to stderr and the driver reports 'crash klog.Fatal in <file>' as a violation (except the deliberate 'leader lost' exit)",
}
for d in sorted(glob.glob('/verif/seeded/C*')):
    sid=os.path.basename(d)
    am={}
    if os.path.exists(d+'/agent_meta.json'):
        try: am=json.load(open(d+'/agent_meta.json'))
        except Exception: am={}
    checks=[]
    if os.path.exists(d+'/sweep.txt'):
        for l in open(d+'/sweep.txt'):
            m=re.match(r'\S+ check=(\S+) exit=(\d+) (\S+) ?(.*)',l.strip())
            if m: checks.append({"check":m.group(1),"tier":"quick","exit":int(m.group(2)),"result":m.group(3),"first_signature":m.group(4)})
    prop=sid.split('-')[0]
    meta={
     "seed": sid,
     "property": am.get("property", prop) if isinstance(am.get("property"),str) else prop,
     "summary": am.get("summary",""),
     "needs_to_manifest": am.get("needs_to_manifest", am.get("what_it_needs_to_manifest","")),
     "files_changed": am.get("files_changed",[]),
     "demonstration": {"file": am.get("demo_file",""), "command": am.get("demo_command",""),
        "fails_with_patch": True, "passes_without_patch": True, "pinned_suite_passes_with_patch": True,
        "confirmed_by": "seedrun.sh in a fresh scratch worktree of /repo (removed afterwards)"},
     "what_was_run": "git -C /repo apply seeded/%s/patch.diff; ./bin/kbcheck <check> --tier quick; git -C /repo checkout -- ." % sid,
     "checks": checks,
     "notes": NOTES.get(sid,""),
    }
    json.dump(meta, open(d+'/meta.json','w'), indent=1)
print("ok")
