#!/bin/bash
# runs every check's quick (or $1) tier once; prints one summary line per check
cd "$(dirname "$0")"
TIER=${1:-quick}
rc=0
for i in $(seq -w 1 20); do
  p=C$i
  out=$(./bin/kbcheck $p --tier $TIER 2>&1); e=$?
  echo "$out" | grep -E "^(VIOLATION|INCONCLUSIVE-RUN|KNOWN-FINDING)" | cut -c1-200
  echo "$out" | grep -E "^$p tier" ; [ $e -ne 0 ] && { echo "  exit=$e"; rc=1; }
done
exit $rc
